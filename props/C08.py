"""C08 -- XOR games: Tsirelson optimum with certificates, agreement across formulations; Bell-inequality maximiser."""
from __future__ import annotations

import itertools

ID = "C08"
TITLE = "XOR game values are the Tsirelson optimum and agree across formulations"
LEVEL = "exploration"
BUDGET = {"quick": 80, "thorough": 900}
TECHNIQUE = "run-time-checked contracts on the real functions over a bounded domain (bounded stand-in)"
LEVEL_TEXT = (
    "Bounded. Each XOR-game instance is judged against weak-duality certificates computed here, not by a second call of the same SDP: "
    "an explicit family of unit vectors (own see-saw iteration) gives a lower bound on the optimal bias, an explicit (u, v) with "
    "[[Diag u, -D],[-D^T, Diag v]] >= 0 (checked by eigenvalues, repaired by a diagonal shift) gives an upper bound; quantum_value and the level-1 NPA "
    "bound of the converted game must lie in that bracket (tolerance 5e-4), the classical value must equal the brute-force maximum over +/-1 assignments (1e-9), "
    "classical <= quantum <= 1/2 + K_G * classical bias, the conversion must be the predicate [f == a xor b] with the same distribution, the non-signalling value is 1, "
    "and r repetitions give the r-th power. bell_inequality_max (two settings): bracketed by Tsirelson certificates for correlator inequalities and, with marginals / 0-1 outcomes, "
    "by an explicit two-qubit strategy (lower) and an eigenvalue-checked NPA 1+AB sum-of-squares certificate (upper); never below the best deterministic assignment. "
    "Nothing here is proved for all inputs."
)
RULE = (
    "Deterministic grid: all shapes X x Y in 1..3 x 1..3 (rectangular included) x {uniform, biased, zero-probability row/column} distributions x {int, float, bool} predicate dtypes x tol given/defaulted, "
    "named games (CHSH, odd cycles 3 and 5, all-zero predicate) and larger shapes (2x5, 4x4, 5x5); reps 1..3; plus seeded random instances. Bell: fixed list (CHSH, CH, tilted CHSH, I-type with marginals) plus seeded random "
    "2x2 coefficient matrices with and without marginals, outcome values (+1,-1), (0,1), mixed. Non-trivial = at least two questions in total; distinct = distinct (clause, parameters)."
)
EXPLANATION = LEVEL_TEXT
TRUSTED = [
    "numpy.linalg.eigvalsh / eigh (LAPACK) decide positive semidefiniteness of the certificates; floating-point rounding in the certificates is absorbed by the contract tolerance",
    "Tsirelson's theorem (quantum correlators of an XOR game = inner products of unit vectors) and weak duality of the bias SDP",
    "Grothendieck's inequality with the real constant K_G <= 1.7823 (Krivine)",
    "the non-signalling value of every XOR game is 1 (the box P(a,b|x,y) = [a xor b = f(x,y)]/2 is non-signalling)",
    "Jordan's lemma (two dichotomic measurements per party: the quantum maximum is attained on qubits) is used only to argue that the explicit-strategy lower bound can be tight; soundness of both Bell clauses does not depend on it",
    "the Bell upper certificate (NPA level 1+AB) is an upper bound on the quantum maximum that need not be tight; a loose bound makes the <= clause weaker, never alarming",
    "cvxpy (Clarabel/SCS) is used on the oracle side only to *propose* dual points; every point is re-checked by eigenvalues before it is used",
    "SDP-backed return values are compared with absolute tolerance 5e-4 (times the l1 norm of the coefficients for unnormalised Bell functionals)",
]
ASSUMPTIONS = TRUSTED

TOL_SDP = 5e-4
K_G = 1.7823


# =============================================================================================
# executor side
# =============================================================================================
# ------------------------------------------------------------------------------ instance construction
def _xor_instance(p):
    """(prob, pred) from JSON-able params: shape, dist, dtype, seed | name"""
    import numpy as np

    name = p.get("name")
    if name == "chsh":
        return np.full((2, 2), 0.25), np.array([[0, 0], [0, 1]])
    if name == "chsh-biased":
        return np.array([[0.1, 0.2], [0.3, 0.4]]), np.array([[0, 0], [0, 1]])
    if name and name.startswith("oddcycle"):
        n = int(name[len("oddcycle") :])
        prob = np.zeros((n, n))
        pred = np.zeros((n, n), dtype=int)
        for i in range(n):
            prob[i, i] = 1 / (2 * n)
            prob[i, (i + 1) % n] = 1 / (2 * n)
        pred[n - 1, 0] = 1  # edge (n-1, 0) must differ, all others must agree: a frustrated odd cycle
        return prob, pred
    X, Y = p["shape"]
    rng = np.random.default_rng(p.get("seed", 0))
    dist = p.get("dist", "random")
    if dist == "uniform":
        prob = np.full((X, Y), 1.0 / (X * Y))
    else:
        prob = rng.random((X, Y)) + 0.02
        if dist == "biased":
            prob = prob**4
        if dist == "rarepair":  # one question pair much rarer than a coarse validation tolerance, all others common
            prob = rng.random((X, Y)) + 0.5
            prob[X - 1, Y - 1] = 0.004 * prob.sum()
        if dist == "zerorow" and X > 1:
            prob[rng.integers(X), :] = 0.0
        if dist == "zerocol" and Y > 1:
            prob[:, rng.integers(Y)] = 0.0
        if dist == "sparse" and X * Y > 2:
            k = rng.integers(1, X * Y - 1)
            idx = rng.choice(X * Y, size=k, replace=False)
            prob.ravel()[idx] = 0.0
        prob = prob / prob.sum()
    kind = p.get("pred", "random")
    if kind == "zeros":
        pred = np.zeros((X, Y), dtype=int)
    elif kind == "ones":
        pred = np.ones((X, Y), dtype=int)
    elif kind == "planted":
        # a perfect classical strategy (a*, b*) is planted and is unique up to the global sign; the positions listed in `differ` are
        # answered differently by the second player (an enumeration that skips part of the strategy space misses it)
        a = rng.choice([1, -1], size=X)
        b = rng.choice([1, -1], size=Y)
        for k, pos in enumerate(p.get("differ", [0, 1])):
            if pos < Y:
                b[pos] = 1 if k % 2 == 0 else -1
        pred = (np.outer(a, b) < 0).astype(int)
    else:
        pred = (rng.random((X, Y)) < 0.5).astype(int)
    dt = p.get("dtype", "int")
    if dt == "float":
        pred = pred.astype(float)
    elif dt == "bool":
        pred = pred.astype(bool)
    return prob, pred


def _game(p, reps=None):
    from toqito.nonlocal_games.xor_game import XORGame

    prob, pred = _xor_instance(p)
    kw = {}
    if p.get("tol") is not None:
        kw["tol"] = p["tol"]
    r = p.get("reps", 1) if reps is None else reps
    return XORGame(prob, pred, r, **kw), prob, pred


def _dmat(prob, pred):
    import numpy as np

    return np.asarray(prob, dtype=float) * np.where(np.asarray(pred).astype(int) % 2 == 1, -1.0, 1.0)


# ------------------------------------------------------------------------------ Tsirelson certificates
def _unit_rows(M, fallback):
    import numpy as np

    M = np.array(M, dtype=float)
    for i in range(M.shape[0]):
        n = np.linalg.norm(M[i])
        if n > 1e-300:
            M[i] /= n
        else:
            M[i] = fallback[i]
    return M


def _seesaw(D, V, iters=4000):
    import numpy as np

    X, Y = D.shape
    U = _unit_rows(D @ V, np.eye(X, V.shape[1]))
    prev = -np.inf
    for _ in range(iters):
        U = _unit_rows(D @ V, U)
        V = _unit_rows(D.T @ U, V)
        val = float(np.sum(D * (U @ V.T)))
        if val - prev <= 1e-16 * max(1.0, abs(val)):
            break
        prev = val
    return U, V


def _primal_value(D, U, V):
    """bias attained by explicit vectors; they are re-normalised here so that the bound is valid whatever produced them"""
    import numpy as np

    U = U / np.linalg.norm(U, axis=1, keepdims=True)
    V = V / np.linalg.norm(V, axis=1, keepdims=True)
    return float(np.sum(D * (U @ V.T))), U, V


def _dual_repair(D, u, v):
    """make (u, v) feasible for [[Diag u, -D],[-D^T, Diag v]] >= 0 by a diagonal shift; return the bound (sum u + sum v)/2"""
    import numpy as np

    X, Y = D.shape
    M = np.block([[np.diag(u), -D], [-D.T, np.diag(v)]])
    lam = float(np.linalg.eigvalsh((M + M.T) / 2)[0])
    shift = max(0.0, -lam) * (1 + 1e-9) + 1e-15
    u2, v2 = u + shift, v + shift
    M2 = np.block([[np.diag(u2), -D], [-D.T, np.diag(v2)]])
    lam2 = float(np.linalg.eigvalsh((M2 + M2.T) / 2)[0])
    return 0.5 * (float(u2.sum()) + float(v2.sum())) + max(0.0, -lam2) * (X + Y), u2, v2


def tsirelson(D, seed=0):
    """(lower, upper, info): explicit unit vectors / explicit dual-feasible point for  max sum_xy D[x,y] <u_x, v_y>"""
    import numpy as np

    D = np.asarray(D, dtype=float)
    X, Y = D.shape
    n = X + Y
    rng = np.random.default_rng(1000 + seed)
    best = (-np.inf, None, None)
    for r in range(8):
        V0 = _unit_rows(rng.standard_normal((Y, n)), np.eye(Y, n))
        U, V = _seesaw(D, V0)
        val, U, V = _primal_value(D, U, V)
        if val > best[0]:
            best = (val, U, V)
    lb, U, V = best
    # dual point determined by complementary slackness from the primal vectors
    u = np.einsum("ij,ij->i", U, D @ V)
    v = np.einsum("ij,ij->i", V, D.T @ U)
    ub, u2, v2 = _dual_repair(D, u, v)
    how = "seesaw"
    if ub - lb > 1e-7 * max(1.0, np.abs(D).sum()):
        # propose better points with an SDP solver (own formulation); they are re-checked / re-evaluated explicitly
        try:
            import cvxpy as cp

            uu, vv = cp.Variable(X), cp.Variable(Y)
            pr = cp.Problem(cp.Minimize(0.5 * (cp.sum(uu) + cp.sum(vv))), [cp.bmat([[cp.diag(uu), -D], [-D.T, cp.diag(vv)]]) >> 0])
            pr.solve(solver="CLARABEL")
            if uu.value is not None:
                ub2, a2, b2 = _dual_repair(D, np.array(uu.value, dtype=float), np.array(vv.value, dtype=float))
                if ub2 < ub:
                    ub, u2, v2, how = ub2, a2, b2, "seesaw+sdp-dual"
            G = cp.Variable((n, n), symmetric=True)
            C = np.zeros((n, n))
            C[:X, X:] = D / 2
            C[X:, :X] = D.T / 2
            pr = cp.Problem(cp.Maximize(cp.trace(C @ G)), [G >> 0, cp.diag(G) == 1])
            pr.solve(solver="CLARABEL")
            if G.value is not None:
                w, Q = np.linalg.eigh((G.value + G.value.T) / 2)
                W = Q * np.sqrt(np.clip(w, 0, None))
                V0 = _unit_rows(W[X:], V)
                U3, V3 = _seesaw(D, V0)
                val, U3, V3 = _primal_value(D, U3, V3)
                if val > lb:
                    lb, U, V, how = val, U3, V3, how + "+sdp-primal"
        except Exception:  # the oracle's helper solver failing only leaves the bracket wider
            pass
    return lb, ub, {"gap": ub - lb, "how": how, "U": U, "V": V, "u": u2, "v": v2}


def _bracket(D, seed=0):
    from vt.contract import Undecided

    lb, ub, info = tsirelson(D, seed)
    import numpy as np

    scale = max(1.0, float(np.abs(D).sum()))
    if ub - lb > 1e-4 * scale:
        raise Undecided("oracle certificates do not meet: bias in [%.8f, %.8f]" % (lb, ub))
    return lb, ub, info


def _finite(v, what):
    import numpy as np

    from vt.contract import Undecided

    if v is None or not np.isfinite(v):
        raise Undecided("%s: solver returned %r" % (what, v))
    return float(v)


# ------------------------------------------------------------------------------ XOR clauses
def qv_ge(p):
    """quantum_value >= (1/2 + bias attained by explicit unit vectors / 2) ** reps"""
    from vt.contract import Violation

    g, prob, pred = _game(p)
    r = p.get("reps", 1)
    got = _finite(g.quantum_value(), "quantum_value")
    lb, ub, info = _bracket(_dmat(prob, pred), p.get("seed", 0))
    low = (0.5 + 0.5 * lb) ** r
    if got < low - TOL_SDP:
        raise Violation("quantum_value(reps=%d) = %.7f is below %.7f, the value attained by explicit unit vectors (bias %.7f)" % (r, got, low, lb))
    return {"got": got, "low": low, "gap": info["gap"]}


def qv_le(p):
    """quantum_value <= (1/2 + dual-certificate bound on the bias / 2) ** reps"""
    from vt.contract import Violation

    g, prob, pred = _game(p)
    r = p.get("reps", 1)
    got = _finite(g.quantum_value(), "quantum_value")
    lb, ub, info = _bracket(_dmat(prob, pred), p.get("seed", 0))
    high = (0.5 + 0.5 * ub) ** r
    if got > high + TOL_SDP:
        raise Violation("quantum_value(reps=%d) = %.7f exceeds %.7f, the bound certified by a dual-feasible (u, v) (bias <= %.7f)" % (r, got, high, ub))
    return {"got": got, "high": high, "gap": info["gap"]}


def npa1_ge(p):
    """level-1 NPA bound of to_nonlocal_game() >= value attained by explicit unit vectors"""
    from vt.contract import Violation

    g, prob, pred = _game(p, reps=1)
    got = _finite(g.to_nonlocal_game().commuting_measurement_value_upper_bound(k=1), "NPA-1")
    lb, ub, info = _bracket(_dmat(prob, pred), p.get("seed", 0))
    if got < 0.5 + 0.5 * lb - TOL_SDP:
        raise Violation("NPA level 1 of the converted game = %.7f < %.7f attained by explicit unit vectors" % (got, 0.5 + 0.5 * lb))


def npa1_le(p):
    """level-1 NPA bound of to_nonlocal_game() <= Tsirelson optimum (dual certificate): level 1 is exact for XOR games"""
    from vt.contract import Violation

    g, prob, pred = _game(p, reps=1)
    got = _finite(g.to_nonlocal_game().commuting_measurement_value_upper_bound(k=1), "NPA-1")
    lb, ub, info = _bracket(_dmat(prob, pred), p.get("seed", 0))
    if got > 0.5 + 0.5 * ub + TOL_SDP:
        raise Violation("NPA level 1 of the converted game = %.7f > %.7f, the certified Tsirelson optimum" % (got, 0.5 + 0.5 * ub))


def _classical_brute(D):
    """max over +/-1 assignments of 1/2 + 1/2 sum D[x,y] a_x b_y"""
    import numpy as np

    X, Y = D.shape
    best = -np.inf
    if X + Y <= 12:
        for a in itertools.product((1.0, -1.0), repeat=X):
            av = np.array(a)
            for b in itertools.product((1.0, -1.0), repeat=Y):
                best = max(best, float(av @ D @ np.array(b)))
    else:
        for a in itertools.product((1.0, -1.0), repeat=X):
            best = max(best, float(np.abs(np.array(a) @ D).sum()))
    return 0.5 + 0.5 * best


def cv_ge(p):
    """XORGame.classical_value >= maximum over +/-1 answer assignments"""
    from vt.contract import Violation

    g, prob, pred = _game(p, reps=1)
    got = float(g.classical_value())
    exp = _classical_brute(_dmat(prob, pred))
    if got < exp - 1e-9:
        raise Violation("classical_value %.9f < brute-force maximum over +/-1 assignments %.9f" % (got, exp))


def cv_le(p):
    """XORGame.classical_value <= maximum over +/-1 answer assignments"""
    from vt.contract import Violation

    g, prob, pred = _game(p, reps=1)
    got = float(g.classical_value())
    exp = _classical_brute(_dmat(prob, pred))
    if got > exp + 1e-9:
        raise Violation("classical_value %.9f > brute-force maximum over +/-1 assignments %.9f" % (got, exp))


def cv_reps2(p):
    """XORGame(prob, pred, reps=2).classical_value() == classical value of the 2-fold parallel repetition (both rounds must be won),
    by exhaustive search over Alice's answer functions with Bob's best response computed question by question"""
    import numpy as np

    from vt.contract import Violation

    g, prob, pred = _game(p, reps=2)
    X, Y = prob.shape
    f = np.asarray(pred).astype(int) % 2
    got = float(g.classical_value())
    qa = [(x1, x2) for x1 in range(X) for x2 in range(X)]
    qb = [(y1, y2) for y1 in range(Y) for y2 in range(Y)]
    ans = [(0, 0), (0, 1), (1, 0), (1, 1)]
    # W[ia, ib, ix, iy] = pi(x1,y1) pi(x2,y2) [a1^b1 == f(x1,y1)] [a2^b2 == f(x2,y2)]
    W = np.zeros((4, 4, len(qa), len(qb)))
    for ix, (x1, x2) in enumerate(qa):
        for iy, (y1, y2) in enumerate(qb):
            w = prob[x1, y1] * prob[x2, y2]
            for ia, (a1, a2) in enumerate(ans):
                for ib, (b1, b2) in enumerate(ans):
                    if (a1 ^ b1) == f[x1, y1] and (a2 ^ b2) == f[x2, y2]:
                        W[ia, ib, ix, iy] = w
    best = -1.0
    for fa in itertools.product(range(4), repeat=len(qa)):
        tot = W[list(fa), :, list(range(len(qa))), :].sum(axis=0)  # (ib, iy)
        best = max(best, float(tot.max(axis=0).sum()))
    if abs(got - best) > 1e-9:
        raise Violation("classical_value of the 2-fold repetition of a %d x %d XOR game = %.9f, exhaustive search over the product game = %.9f" % (X, Y, got, best))


def conv_pred(p):
    """to_nonlocal_game(): V[a,b,x,y] == [f(x,y) == a xor b], same distribution, XOR object unchanged; same classical value"""
    import numpy as np

    from toqito.nonlocal_games.nonlocal_game import NonlocalGame
    from vt.contract import Violation

    g, prob, pred = _game(p, reps=1)
    prob0, pred0 = prob.copy(), pred.copy()
    nl = g.to_nonlocal_game()
    X, Y = prob.shape
    if nl.pred_mat.shape != (2, 2, X, Y):
        raise Violation("converted predicate has shape %s, expected (2, 2, %d, %d)" % (nl.pred_mat.shape, X, Y))
    for a in range(2):
        for b in range(2):
            for x in range(X):
                for y in range(Y):
                    exp = 1.0 if int(pred0[x, y]) == (a ^ b) else 0.0
                    if nl.pred_mat[a, b, x, y] != exp:
                        raise Violation("converted V[a=%d,b=%d,x=%d,y=%d] = %r, [f == a xor b] = %r (f = %r)" % (a, b, x, y, nl.pred_mat[a, b, x, y], exp, pred0[x, y]))
    if not np.array_equal(nl.prob_mat, prob0):
        raise Violation("converted game has a different question distribution")
    if not (np.array_equal(g.prob_mat, prob0) and np.array_equal(g.pred_mat, pred0)):
        raise Violation("to_nonlocal_game modified the XOR game object")
    V = np.zeros((2, 2, X, Y))
    for a in range(2):
        for b in range(2):
            V[a, b] = (pred0.astype(int) == (a ^ b)).astype(float)
    c1 = float(g.classical_value())
    c2 = float(NonlocalGame(prob0, V).classical_value())
    if abs(c1 - c2) > 1e-9:
        raise Violation("classical value of the XOR game %.9f differs from that of the equivalent general game %.9f" % (c1, c2))
    # the converted game is an object like any other: its values do not depend on which of them was computed before
    table = nl.pred_mat.copy()
    c3 = float(nl.classical_value())
    c4 = float(nl.classical_value())
    if abs(c3 - c1) > 1e-9 or abs(c4 - c1) > 1e-9:
        raise Violation("converted game: classical value %.9f on the first call and %.9f on the second call on the same object; the XOR game gives %.9f" % (c3, c4, c1))
    if not np.array_equal(nl.pred_mat, table):
        raise Violation("classical_value() of the converted game rescaled its predicate table in place (later values of the same object are those of a different game)")


def ns_value(p):
    """XORGame.nonsignaling_value == value of the equivalent general game == 1"""
    import numpy as np

    from toqito.nonlocal_games.nonlocal_game import NonlocalGame
    from vt.contract import Violation

    g, prob, pred = _game(p, reps=1)
    X, Y = prob.shape
    got = _finite(g.nonsignaling_value(), "nonsignaling_value")
    if abs(got - 1.0) > TOL_SDP:
        raise Violation("non-signalling value of an XOR game is 1, nonsignaling_value returned %.7f" % got)
    V = np.zeros((2, 2, X, Y))
    for a in range(2):
        for b in range(2):
            V[a, b] = (np.asarray(pred).astype(int) == (a ^ b)).astype(float)
    ref = _finite(NonlocalGame(prob, V).nonsignaling_value(), "nonsignaling_value (general game)")
    if abs(got - ref) > TOL_SDP:
        raise Violation("XOR non-signalling value %.7f differs from the equivalent general game's %.7f" % (got, ref))


def order_cq(p):
    """classical_value <= quantum_value (both as returned)"""
    from vt.contract import Violation

    g, prob, pred = _game(p, reps=1)
    c = float(g.classical_value())
    q = _finite(g.quantum_value(), "quantum_value")
    if c > q + TOL_SDP:
        raise Violation("classical_value %.7f > quantum_value %.7f" % (c, q))


def grothendieck(p):
    """quantum bias <= K_G * classical bias with K_G <= 1.7823 (classical bias by brute force)"""
    from vt.contract import Violation

    g, prob, pred = _game(p, reps=1)
    q = _finite(g.quantum_value(), "quantum_value")
    cb = 2 * _classical_brute(_dmat(prob, pred)) - 1
    if 2 * q - 1 > K_G * cb + 2 * TOL_SDP:
        raise Violation("quantum bias %.7f exceeds K_G * classical bias = 1.7823 * %.7f = %.7f" % (2 * q - 1, cb, K_G * cb))


# ------------------------------------------------------------------------------ Bell maximiser
def _bell_instance(p):
    import numpy as np

    name = p.get("name")
    z = np.zeros(2)
    if name == "chsh":
        return np.array([[1.0, 1.0], [1.0, -1.0]]), z.copy(), z.copy(), np.array([1, -1]), np.array([1, -1])
    if name == "chsh-01":  # same functional written with 0/1 outcomes: correlator E = 4 P(11) - 2 P_A(1) - 2 P_B(1) + 1
        return np.array([[1.0, 1.0], [1.0, -1.0]]), z.copy(), z.copy(), np.array([0, 1]), np.array([0, 1])
    if name == "ch":  # Clauser-Horne: P(11|00)+P(11|01)+P(11|10)-P(11|11) - P_A(1|0) - P_B(1|0) <= 0, quantum max (sqrt2-1)/2
        return np.array([[1.0, 1.0], [1.0, -1.0]]), np.array([-1.0, 0.0]), np.array([-1.0, 0.0]), np.array([0, 1]), np.array([0, 1])
    if name == "tilted":  # alpha A0 + CHSH, quantum max sqrt(8 + 2 alpha^2)
        al = p.get("alpha", 0.5)
        J = np.array([[1, 1], [1, -1]]) if p.get("int_joint") else np.array([[1.0, 1.0], [1.0, -1.0]])
        return J, np.array([al, 0.0]), z.copy(), np.array([1, -1]), np.array([1, -1])
    if name == "marginal-only":
        return np.zeros((2, 2)), np.array([1.0, -0.5]), np.array([0.25, 2.0]), np.array([1, -1]), np.array([1, -1])
    rng = np.random.default_rng(p.get("seed", 0))
    J = np.round(rng.uniform(-1, 1, (2, 2)), 3)
    if p.get("marg"):
        ac = np.round(rng.uniform(-1, 1, 2), 3)
        bc = np.round(rng.uniform(-1, 1, 2), 3)
    else:
        ac, bc = z.copy(), z.copy()
    vals = {"pm": [1, -1], "mp": [-1, 1], "01": [0, 1], "10": [1, 0]}
    if p.get("int_joint"):  # integer-typed joint coefficients and outcome values with fractional marginal terms (e.g. tilted CHSH typed in by hand)
        J = np.rint(3 * J).astype(np.int64)
        if not J.any():
            J[0, 0] = 1
    return J, ac, bc, np.array(vals[p.get("aval", "pm")]), np.array(vals[p.get("bval", "pm")])


def _bell_pm_form(J, ac, bc, av, bv):
    """rewrite the functional in +/-1 observables: c0 + sum al_x <A_x> + sum be_y <B_y> + sum ga_xy <A_x B_y>"""
    import numpy as np

    sa, da = (av[0] + av[1]) / 2.0, (av[0] - av[1]) / 2.0
    sb, db = (bv[0] + bv[1]) / 2.0, (bv[0] - bv[1]) / 2.0
    c0 = sa * sb * J.sum() + sa * ac.sum() + sb * bc.sum()
    al = da * (sb * J.sum(axis=1) + ac)
    be = db * (sa * J.sum(axis=0) + bc)
    ga = da * db * J
    return float(c0), np.asarray(al, float), np.asarray(be, float), np.asarray(ga, float)


def _bell_det(J, ac, bc, av, bv):
    """best deterministic assignment, straight from the definition (16 assignments)"""
    best = -float("inf")
    for a0, a1, b0, b1 in itertools.product(range(2), repeat=4):
        A = [av[a0], av[a1]]
        B = [bv[b0], bv[b1]]
        v = sum(J[x, y] * A[x] * B[y] for x in range(2) for y in range(2)) + sum(ac[x] * A[x] for x in range(2)) + sum(bc[y] * B[y] for y in range(2))
        best = max(best, float(v))
    return best


def _sign_herm(H):
    import numpy as np

    w, Q = np.linalg.eigh((H + H.conj().T) / 2)
    s = np.where(w >= 0, 1.0, -1.0)
    return (Q * s) @ Q.conj().T


def _bell_qubit_lower(c0, al, be, ga, seed=0, restarts=40):
    """explicit two-qubit strategy (state + +/-1-valued observables) found by see-saw; returns its value"""
    import numpy as np

    rng = np.random.default_rng(2000 + seed)
    I2 = np.eye(2)
    best = -np.inf

    def rand_obs():
        k = rng.integers(4)
        if k == 0:
            return I2.astype(complex) * (1 if rng.random() < 0.5 else -1)
        v = rng.standard_normal(3)
        v /= np.linalg.norm(v)
        return v[0] * np.array([[0, 1], [1, 0]], complex) + v[1] * np.array([[0, -1j], [1j, 0]]) + v[2] * np.array([[1, 0], [0, -1]], complex)

    def bellop(A, B):
        op = np.zeros((4, 4), complex)
        for x in range(2):
            op += al[x] * np.kron(A[x], I2)
            for y in range(2):
                op += ga[x, y] * np.kron(A[x], B[y])
        for y in range(2):
            op += be[y] * np.kron(I2, B[y])
        return (op + op.conj().T) / 2

    for _ in range(restarts):
        A = [rand_obs(), rand_obs()]
        B = [rand_obs(), rand_obs()]
        prev = -np.inf
        for _it in range(200):
            w, Q = np.linalg.eigh(bellop(A, B))
            psi = Q[:, -1]
            rho = np.outer(psi, psi.conj()).reshape(2, 2, 2, 2)  # [a, b, a', b']
            for x in range(2):
                K = al[x] * I2 + sum(ga[x, y] * B[y] for y in range(2))
                # H[a, a'] = sum_{b,b'} rho[a,b,a',b'] K[b', b]; tr(H A_x) is the x-dependent part of the value, maximised by sign(H)
                H = np.einsum("abcd,db->ac", rho, K)
                A[x] = _sign_herm(H)
            w, Q = np.linalg.eigh(bellop(A, B))
            psi = Q[:, -1]
            rho = np.outer(psi, psi.conj()).reshape(2, 2, 2, 2)
            for y in range(2):
                K = be[y] * I2 + sum(ga[x, y] * A[x] for x in range(2))
                H = np.einsum("abcd,ca->bd", rho, K)
                B[y] = _sign_herm(H)
            val = float(np.linalg.eigvalsh(bellop(A, B))[-1])
            if val - prev < 1e-14:
                break
            prev = val
        # verify the strategy explicitly: observables are Hermitian involutions
        ok = all(np.allclose(M @ M, I2, atol=1e-10) and np.allclose(M, M.conj().T, atol=1e-12) for M in A + B)
        if ok:
            best = max(best, float(np.linalg.eigvalsh(bellop(A, B))[-1]))
    return c0 + best


_NPA_CACHE = {}


def _npa_1ab_structure():
    """moment-matrix structure of NPA level 1+AB for two +/-1 observables per party (real part, 9 x 9)"""
    if _NPA_CACHE:
        return _NPA_CACHE["s"]
    import numpy as np

    words = [((), ())] + [((x,), ()) for x in range(2)] + [((), (y,)) for y in range(2)] + [((x,), (y,)) for x in range(2) for y in range(2)]

    def red(w):
        out = []
        for s in w:
            if out and out[-1] == s:
                out.pop()
            else:
                out.append(s)
        return tuple(out)

    def canon(wa, wb):
        k1 = (wa, wb)
        k2 = (tuple(reversed(wa)), tuple(reversed(wb)))
        return min(k1, k2)

    n = len(words)
    keys = {}
    idx = np.zeros((n, n), dtype=int)
    for i, (ua, ub) in enumerate(words):
        for j, (va, vb) in enumerate(words):
            wa = red(tuple(reversed(ua)) + va)
            wb = red(tuple(reversed(ub)) + vb)
            k = canon(wa, wb)
            idx[i, j] = keys.setdefault(k, len(keys))
    _NPA_CACHE["s"] = (words, keys, idx)
    return _NPA_CACHE["s"]


def _bell_npa_upper(c0, al, be, ga):
    """eigenvalue-checked sum-of-squares certificate at NPA level 1+AB:  value <= returned bound for every quantum strategy"""
    import cvxpy as cp
    import numpy as np

    from vt.contract import Undecided

    words, keys, idx = _npa_1ab_structure()
    n = len(words)
    m = len(keys)
    c = np.zeros(m)
    for x in range(2):
        c[keys[((x,), ())]] += al[x]
    for y in range(2):
        c[keys[((), (y,))]] += be[y]
    for x in range(2):
        for y in range(2):
            c[keys[((x,), (y,))]] += ga[x, y]
    k0 = keys[((), ())]
    G = [(idx == j).astype(float) for j in range(m)]
    Z = cp.Variable((n, n), symmetric=True)
    cons = [Z >> 0] + [cp.sum(cp.multiply(G[j], Z)) == -c[j] for j in range(m) if j != k0]
    pr = cp.Problem(cp.Minimize(cp.sum(cp.multiply(G[k0], Z))), cons)
    try:
        pr.solve(solver="CLARABEL")
    except Exception as e:
        raise Undecided("oracle-side SDP (NPA 1+AB dual) failed: %s" % type(e).__name__)
    if Z.value is None:
        raise Undecided("oracle-side SDP (NPA 1+AB dual) returned no point (%s)" % pr.status)
    Zv = (Z.value + Z.value.T) / 2
    lam = float(np.linalg.eigvalsh(Zv)[0])
    resid = sum(abs(float(np.sum(G[j] * Zv)) + c[j]) for j in range(m) if j != k0)
    # for any moment matrix Gamma >= 0 with unit diagonal (all words are unitary, |moments| <= 1):
    #   sum_j c_j m_j = <Z,G_0> - <Z,Gamma> + sum_j r_j m_j <= <Z,G_0> + n * max(0,-lambda_min(Z)) + sum |r_j|
    return c0 + float(np.sum(G[k0] * Zv)) + n * max(0.0, -lam) + resid


def _bell_call(p):
    from toqito.state_opt import bell_inequality_max

    J, ac, bc, av, bv = _bell_instance(p)
    got = bell_inequality_max(J.copy(), ac.copy(), bc.copy(), av.copy(), bv.copy())
    got = _finite(got, "bell_inequality_max")
    return got, J, ac, bc, av, bv


def _bell_scale(J, ac, bc, av, bv):
    import numpy as np

    m = max(abs(av).max(), 1) * max(abs(bv).max(), 1)
    return max(1.0, float(np.abs(J).sum() * m + np.abs(ac).sum() * abs(av).max() + np.abs(bc).sum() * abs(bv).max()))


def bell_det_ge(p):
    """bell_inequality_max >= best deterministic assignment (brute force over 16)"""
    from vt.contract import Violation

    got, J, ac, bc, av, bv = _bell_call(p)
    det = _bell_det(J, ac, bc, av, bv)
    tol = TOL_SDP * _bell_scale(J, ac, bc, av, bv)
    if got < det - tol:
        raise Violation("bell_inequality_max = %.6f is less than the best deterministic assignment %.6f" % (got, det))


def bell_tsirelson_ge(p):
    """correlator inequality, +/-1 outcomes: bell_inequality_max >= value attained by explicit unit vectors"""
    import numpy as np

    from vt.contract import Violation

    got, J, ac, bc, av, bv = _bell_call(p)
    c0, al, be, ga = _bell_pm_form(J, ac, bc, av, bv)
    assert c0 == 0 and not al.any() and not be.any()
    lb, ub, info = _bracket(ga, p.get("seed", 0))
    tol = TOL_SDP * max(1.0, float(np.abs(ga).sum()))
    if got < lb - tol:
        raise Violation("bell_inequality_max = %.6f < %.6f attained by explicit unit vectors (Tsirelson) for J = %s" % (got, lb, J.tolist()))


def bell_tsirelson_le(p):
    """correlator inequality, +/-1 outcomes: bell_inequality_max <= Tsirelson optimum certified by a dual-feasible point"""
    import numpy as np

    from vt.contract import Violation

    got, J, ac, bc, av, bv = _bell_call(p)
    c0, al, be, ga = _bell_pm_form(J, ac, bc, av, bv)
    assert c0 == 0 and not al.any() and not be.any()
    lb, ub, info = _bracket(ga, p.get("seed", 0))
    tol = TOL_SDP * max(1.0, float(np.abs(ga).sum()))
    if got > ub + tol:
        raise Violation("bell_inequality_max = %.6f > %.6f, the certified Tsirelson optimum for J = %s" % (got, ub, J.tolist()))


def bell_marg_ge(p):
    """marginal terms / 0-1 outcomes: bell_inequality_max >= value of an explicit two-qubit strategy"""
    from vt.contract import Violation

    got, J, ac, bc, av, bv = _bell_call(p)
    c0, al, be, ga = _bell_pm_form(J, ac, bc, av, bv)
    low = _bell_qubit_lower(c0, al, be, ga, p.get("seed", 0))
    tol = TOL_SDP * _bell_scale(J, ac, bc, av, bv)
    if got < low - tol:
        raise Violation("bell_inequality_max = %.6f < %.6f attained by an explicit two-qubit strategy (J=%s, a_coe=%s, b_coe=%s, a_val=%s, b_val=%s)" % (got, low, J.tolist(), ac.tolist(), bc.tolist(), av.tolist(), bv.tolist()))
    return {"got": got, "low": low}


def bell_marg_le(p):
    """marginal terms / 0-1 outcomes: bell_inequality_max <= certified upper bound on the quantum maximum (NPA 1+AB SOS certificate)"""
    from vt.contract import Violation

    got, J, ac, bc, av, bv = _bell_call(p)
    c0, al, be, ga = _bell_pm_form(J, ac, bc, av, bv)
    high = _bell_npa_upper(c0, al, be, ga)
    tol = TOL_SDP * _bell_scale(J, ac, bc, av, bv)
    if got > high + tol:
        low = _bell_qubit_lower(c0, al, be, ga, p.get("seed", 0))
        raise Violation("bell_inequality_max = %.6f > %.6f, a certified upper bound on the quantum maximum (best explicit strategy found: %.6f; J=%s, a_coe=%s, b_coe=%s, a_val=%s, b_val=%s)" % (got, high, low, J.tolist(), ac.tolist(), bc.tolist(), av.tolist(), bv.tolist()))
    return {"got": got, "high": high}


def bell_closed(p):
    """closed forms: CHSH 2 sqrt 2 (also written with 0/1 outcomes), CH (sqrt 2 - 1)/2, tilted CHSH sqrt(8 + 2 alpha^2), marginal-only = l1 norm"""
    import math

    from vt.contract import Violation

    got, J, ac, bc, av, bv = _bell_call(p)
    name = p["name"]
    if name == "chsh":
        exp = 2 * math.sqrt(2)
    elif name == "chsh-01":
        # sum J_xy P(11|xy): with P(11|xy) = (1 - <A_x> - <B_y> + <A_x B_y>)/4 the functional is (2 - 2<A_0> - 2<B_0> + CHSH)/4;
        # no closed form is claimed here, the value is judged by bell.marg_ge / bell.marg_le
        return
    elif name == "ch":
        exp = (math.sqrt(2) - 1) / 2
    elif name == "tilted":
        exp = math.sqrt(8 + 2 * p.get("alpha", 0.5) ** 2)
    elif name == "marginal-only":
        exp = float(abs(ac).sum() + abs(bc).sum())
    else:
        return
    tol = TOL_SDP * _bell_scale(J, ac, bc, av, bv)
    if abs(got - exp) > tol:
        raise Violation("bell_inequality_max(%s) = %.6f, closed form %.6f" % (name, got, exp))


CLAUSES = {
    "xor.qv_ge": qv_ge,
    "xor.qv_le": qv_le,
    "xor.npa1_ge": npa1_ge,
    "xor.npa1_le": npa1_le,
    "xor.cv_ge": cv_ge,
    "xor.cv_reps2": cv_reps2,
    "xor.cv_le": cv_le,
    "xor.conv_pred": conv_pred,
    "xor.ns_value": ns_value,
    "xor.order_cq": order_cq,
    "xor.grothendieck": grothendieck,
    "bell.det_ge": bell_det_ge,
    "bell.tsirelson_ge": bell_tsirelson_ge,
    "bell.tsirelson_le": bell_tsirelson_le,
    "bell.marg_ge": bell_marg_ge,
    "bell.marg_le": bell_marg_le,
    "bell.closed": bell_closed,
}
_FN = {
    "xor.qv_ge": "XORGame.quantum_value",
    "xor.qv_le": "XORGame.quantum_value",
    "xor.npa1_ge": "XORGame.to_nonlocal_game/commuting_measurement_value_upper_bound",
    "xor.npa1_le": "XORGame.to_nonlocal_game/commuting_measurement_value_upper_bound",
    "xor.cv_ge": "XORGame.classical_value",
    "xor.cv_reps2": "XORGame.classical_value",
    "xor.cv_le": "XORGame.classical_value",
    "xor.conv_pred": "XORGame.to_nonlocal_game",
    "xor.ns_value": "XORGame.nonsignaling_value",
    "xor.order_cq": "XORGame.quantum_value",
    "xor.grothendieck": "XORGame.quantum_value",
    "bell.det_ge": "bell_inequality_max",
    "bell.tsirelson_ge": "bell_inequality_max",
    "bell.tsirelson_le": "bell_inequality_max",
    "bell.marg_ge": "bell_inequality_max",
    "bell.marg_le": "bell_inequality_max",
    "bell.closed": "bell_inequality_max",
}
for _k, _f in CLAUSES.items():
    _f.function = _FN[_k]
    _f.limit = 60


def cases(tier, seed):
    thorough = tier == "thorough"
    out = []

    def add(clause, params, ic, nontrivial=True):
        out.append(dict(clause=clause, params=params, input_class=ic, nontrivial=nontrivial))

    def shape_class(X, Y):
        return "square" if X == Y else "rectangular"

    value_clauses = ("xor.qv_ge", "xor.qv_le", "xor.cv_ge", "xor.cv_le", "xor.conv_pred", "xor.order_cq", "xor.grothendieck")
    sdp_clauses = ("xor.npa1_ge", "xor.npa1_le", "xor.ns_value")

    # ---- grid over shapes 1..3 x 1..3, distributions, dtypes, tol
    for X in (1, 2, 3):
        for Y in (1, 2, 3):
            nt = X + Y > 2
            for dist in ("uniform", "random", "biased", "zerorow", "zerocol"):
                if dist == "zerorow" and X == 1 or dist == "zerocol" and Y == 1:
                    continue
                ic = "xor/%s/%s" % (shape_class(X, Y), dist)
                nseeds = 6 if thorough else 1
                for s in range(nseeds):
                    base = dict(shape=[X, Y], dist=dist, seed=seed + 11 * s + 3 * X + Y)
                    for cl in value_clauses:
                        add(cl, dict(base), ic, nt)
                    if dist in ("random", "zerorow", "zerocol") or thorough:
                        for cl in sdp_clauses:
                            add(cl, dict(base), ic, nt)
            # dtype of the predicate matrix and explicit tol
            for dt in ("float", "bool"):
                base = dict(shape=[X, Y], dist="random", seed=seed + 5 * X + Y, dtype=dt)
                for cl in ("xor.qv_ge", "xor.qv_le", "xor.cv_ge", "xor.cv_le", "xor.conv_pred"):
                    add(cl, dict(base), "xor/pred-dtype-%s" % dt, nt)
            base = dict(shape=[X, Y], dist="random", seed=seed + 7 * X + Y, tol=1e-6)
            for cl in ("xor.qv_ge", "xor.qv_le", "xor.cv_ge", "xor.cv_le"):
                add(cl, dict(base), "xor/tol-given", nt)
            # a coarse explicit tol only loosens the validation of prob_mat: the values are those of the distribution as given, also when
            # some question pair is rarer than tol
            for tolv, dist in ((1e-2, "rarepair"), (5e-2, "biased"), (1e-2, "biased")):
                if X * Y == 1:
                    continue
                base = dict(shape=[X, Y], dist=dist, seed=seed + 17 * X + Y, tol=tolv)
                for cl in ("xor.qv_ge", "xor.qv_le", "xor.cv_ge", "xor.cv_le", "xor.conv_pred"):
                    add(cl, dict(base), "xor/coarse-tol-rare-question-pair", nt)
            # degenerate predicates
            for pk in ("zeros", "ones"):
                base = dict(shape=[X, Y], dist="random", seed=seed + X + 2 * Y, pred=pk)
                for cl in ("xor.qv_ge", "xor.qv_le", "xor.cv_ge", "xor.cv_le"):
                    add(cl, dict(base), "xor/constant-predicate", nt)
            # repetitions
            for r in (2, 3):
                base = dict(shape=[X, Y], dist="random", seed=seed + 13 * X + Y, reps=r)
                add("xor.qv_ge", dict(base), "xor/reps=%d" % r, nt)
                add("xor.qv_le", dict(base), "xor/reps=%d" % r, nt)
    # ---- two repetitions, classical value, square and rectangular question sets (4**(X*X) answer functions of Alice are enumerated)
    for shp in ([2, 2], [2, 3], [1, 3], [2, 1]):
        add("xor.cv_reps2", dict(shape=shp, dist="random", seed=seed + 41), "xor/reps=2/classical/%s" % shape_class(*shp))
    # ---- named games
    for name in ("chsh", "chsh-biased", "oddcycle3", "oddcycle5"):
        for cl in value_clauses + sdp_clauses:
            add(cl, dict(name=name), "xor/named")
        for r in (2, 3):
            add("xor.qv_ge", dict(name=name, reps=r), "xor/reps=%d" % r)
            add("xor.qv_le", dict(name=name, reps=r), "xor/reps=%d" % r)
    # ---- larger shapes, seeded
    big = [[2, 5], [5, 2], [4, 4], [1, 6], [3, 5], [5, 5], [6, 4]]
    nrep = 8 if thorough else 1
    for i, sh in enumerate(big):
        for r in range(nrep):
            for dist in ("random", "sparse"):
                base = dict(shape=sh, dist=dist, seed=seed + 101 * i + r)
                ic = "xor/%s/%s-large" % (shape_class(*sh), dist)
                for cl in value_clauses:
                    add(cl, dict(base), ic)
                if r == 0 and sh[0] * sh[1] <= 16 or thorough:
                    for cl in sdp_clauses:
                        add(cl, dict(base), ic)
    # ---- seeded random small instances
    import random

    rnd = random.Random(seed)
    for i in range(800 if thorough else 40):
        X, Y = rnd.randint(1, 4), rnd.randint(1, 4)
        dist = rnd.choice(["random", "biased", "sparse", "zerorow", "zerocol"])
        base = dict(shape=[X, Y], dist=dist, seed=seed + 1000 + i)
        ic = "xor/%s/%s" % (shape_class(X, Y), dist)
        for cl in ("xor.qv_ge", "xor.qv_le", "xor.cv_ge", "xor.cv_le", "xor.grothendieck"):
            add(cl, dict(base), ic, X + Y > 2)
        if i % 3 == 0:
            for cl in ("xor.npa1_ge", "xor.npa1_le"):
                add(cl, dict(base), ic, X + Y > 2)

    # ---- many questions: more than 1000 deterministic strategies of the enumerated player (the classical value then takes its process-pool path);
    # run in the main process of the executor (a pool worker may not start a pool of its own)
    for shp in [[10, 10], [3, 10], [10, 3]] + ([[11, 11], [12, 4]] if thorough else []):
        for cl in ("xor.cv_ge", "xor.cv_le"):
            out.append(dict(clause=cl, params=dict(shape=shp, dist="random", seed=seed + 77), input_class="xor/many-questions/%dx%d" % tuple(shp), nontrivial=True, inline=True))
    for differ in ([0, 1], [8, 9], [0, 9]):
        for cl in ("xor.cv_ge", "xor.cv_le"):
            out.append(dict(clause=cl, params=dict(shape=[10, 10], dist="random", pred="planted", differ=differ, seed=seed + 78), input_class="xor/many-questions/10x10-planted", nontrivial=True, inline=True))

    # ---- Bell maximiser, m = 2
    for name in ("chsh", "ch", "tilted", "marginal-only", "chsh-01"):
        par = dict(name=name)
        add("bell.closed", dict(par), "bell/named", name != "chsh-01")
        add("bell.det_ge", dict(par), "bell/named")
        if name == "chsh":
            add("bell.tsirelson_ge", dict(par), "bell/correlators-pm")
            add("bell.tsirelson_le", dict(par), "bell/correlators-pm")
        else:
            add("bell.marg_ge", dict(par), "bell/named")
            add("bell.marg_le", dict(par), "bell/named")
    for al in (0.25, 1.0, 1.5):
        add("bell.closed", dict(name="tilted", alpha=al), "bell/named")
    for al in (0.5, 0.25):
        add("bell.closed", dict(name="tilted", alpha=al, int_joint=True), "bell/integer-joint-coefficients")
        add("bell.marg_ge", dict(name="tilted", alpha=al, int_joint=True), "bell/integer-joint-coefficients")
        add("bell.marg_le", dict(name="tilted", alpha=al, int_joint=True), "bell/integer-joint-coefficients")
    for i in range(6 if thorough else 3):
        for av, bv in (("pm", "pm"), ("01", "01"), ("pm", "01")):
            par = dict(seed=seed + 900 + i, marg=True, aval=av, bval=bv, int_joint=True)
            for cl in ("bell.marg_ge", "bell.marg_le", "bell.det_ge"):
                add(cl, dict(par), "bell/integer-joint-coefficients")
    nb = 150 if thorough else 12
    for i in range(nb):
        for av, bv in (("pm", "pm"), ("mp", "pm")):
            par = dict(seed=seed + 300 + i, marg=False, aval=av, bval=bv)
            add("bell.tsirelson_ge", dict(par), "bell/correlators-pm")
            add("bell.tsirelson_le", dict(par), "bell/correlators-pm")
            add("bell.det_ge", dict(par), "bell/correlators-pm")
    combos = (("pm", "pm", True), ("01", "01", True), ("01", "01", False), ("pm", "01", True), ("10", "mp", True))
    for i in range(nb):
        for av, bv, mg in combos:
            par = dict(seed=seed + 500 + i, marg=mg, aval=av, bval=bv)
            ic = "bell/%s-%s%s" % (av, bv, "-marginals" if mg else "")
            add("bell.marg_ge", dict(par), ic)
            add("bell.marg_le", dict(par), ic)
            add("bell.det_ge", dict(par), ic)
    return out


# =============================================================================================
# deductive part (E1-term): the XOR game's classical / non-signaling values ARE those of its conversion to a general game
# =============================================================================================
def prove(tier, seed):
    from vt.pyvc.termproofs import prove_terms

    muts = [("XORGame.classical_value", "return self.to_nonlocal_game().classical_value()", "return self.to_nonlocal_game().nonsignaling_value()"),
            ("XORGame.nonsignaling_value", "return self.to_nonlocal_game().nonsignaling_value()", "return self.to_nonlocal_game().classical_value()")]
    out = prove_terms(["XORGame.classical_value", "XORGame.nonsignaling_value"], muts, "thorough", "c08t")
    from props import C08_tab as T
    from vt import extract

    out["records"] = out["records"] + T.records()
    out["functions"] = out["functions"] + [extract.Source(T.REL).info("XORGame.to_nonlocal_game")]
    out["instances"] = (out.get("instances") or 0) + 1
    pl = T.planted()
    P = out["planted"]
    for k in ("tried", "refuted"):
        P[k] += pl[k]
    for k in ("survivors", "anchors_missing", "detail"):
        P[k] = list(P.get(k, [])) + pl[k]
    out["selfchecks"]["planted_bugs_all_refuted"] = {"ok": P["tried"] == P["refuted"], "detail": P}
    gen = _cases_before_frames_c08
    for x in out["records"]:
        if x["status"] != "discharged":
            x["replay"] = [dict(c, function=x["function"]) for c in gen("quick", seed) if c["clause"] in ("xor.cv_ge", "xor.cv_le", "xor.conv_pred", "xor.ns_value")][:40]
    # E1-prog: the cvxpy program behind XORGame.quantum_value is the dual Tsirelson program and the value returned is (1/2 + opt/4)^reps
    from props.sdp_prove import prove_xor
    from vt.pyvc.termproofs import merge

    rep = [dict(c, function="XORGame.quantum_value") for c in gen("quick", seed) if c["clause"] in ("xor.qv_ge", "xor.qv_le") and not c.get("inline")][:60]
    return merge(out, prove_xor(rep, "c08p", tier))


_cases_before_frames_c08 = cases
LEVEL_TEXT = LEVEL_TEXT + (" Proved (E1-term): XORGame.classical_value / nonsignaling_value are the values of the game's conversion to a general nonlocal game (the statement's "
                           "'identical classical and non-signaling values'); and (E1-array with tabulation loops, all question-set sizes) XORGame.to_nonlocal_game returns NonlocalGame(prob_mat, V, reps=reps) with V[a,b,x,y] = [pred[x,y] == a xor b] "
                           "(the constructor is an opaque term: the obligation is about the arguments it receives). Proved (E1-prog, question counts 2..3 enumerated, reps 1..2, all distributions and predicates): "
                           "XORGame.quantum_value hands cvxpy the program min sum(u) + sum(v) s.t. [[Diag(u), -D], [-D^T, Diag(v)]] >= 0 with D[x,y] = pi(x,y) (-1)^f(x,y), solves it once and returns (1/2 + optimum/4)^reps.")
from props.C08_tab import ASSUMED as _TAB_ASSUMED  # noqa: E402

ASSUMPTIONS = list(ASSUMPTIONS) + list(_TAB_ASSUMED) + ["E1-prog (program contracts): matrices and solver variables are uninterpreted terms; picos / cvxpy semantics assumed by name (>> Loewner order, block / bmat, diag, sum, trace, SpectralNorm, partial_trace of a variable with its index and dimensions argument); the solver returns the optimum of the program it is handed (certified only on the bounded tier); objectives compared modulo real linear arithmetic"]
EXPLANATION = LEVEL_TEXT
ENGINES = ["E1-pyvc"] + [e_ for e_ in globals().get("ENGINES", ["E3-E4-rtc"]) if e_ != "E1-pyvc"]

# =============================================================================================
# frame coverage shared by all properties (E2 obligations for every public function of the anchor files + run-time frame cases)
# =============================================================================================
from props import frame_all as _fa  # noqa: E402
from props.frame_common import frame_generic as _fg, frame_object as _fo  # noqa: E402

CLAUSES.setdefault("frame.generic", _fg)
CLAUSES.setdefault("frame.object", _fo)
_cases_before_frames = cases
_prove_before_frames = globals().get("prove")


def cases(tier, seed):  # noqa: F811
    return _cases_before_frames(tier, seed) + _fa.frame_cases(ID, seed)


def prove(tier, seed):  # noqa: F811
    from vt.pyvc.termproofs import merge

    b = _fa.prove_frames(ID, lambda s: _fa.frame_cases(ID, s))(tier, seed)
    if _prove_before_frames is None:
        return b
    return merge(_prove_before_frames(tier, seed), b)

if LEVEL == "exploration":
    LEVEL = "other"
LEVEL_TEXT = LEVEL_TEXT + (" Additionally proved (E2, taint analysis of the real AST): every public function and method in this property's anchor files writes through "
                           "no reference reachable from its arguments (or from self), so results do not depend on call order and callers' arrays / lists are not modified; "
                           "a run-time frame clause replays the same claim on concrete arguments.")
EXPLANATION = LEVEL_TEXT
if "E2-frame" not in globals().get("ENGINES", []):
    ENGINES = list(globals().get("ENGINES", ["E3-E4-rtc"])) + ["E2-frame"]
