"""C18 -- symmetric / antisymmetric projectors and combinatorial enumerators are exact."""
from __future__ import annotations

import itertools
import math

ID = "C18"
TITLE = "symmetric/antisymmetric projectors and combinatorial enumerators are exact"
LEVEL = "other"
BUDGET = {"quick": 60, "thorough": 600}
ENGINES = ["E1-pyvc", "E3-E4-rtc"]
# The stated quantifier is finite and the quick tier enumerates ALL of it (see cases()): every (d, p) in 1..4 x 1..4
# (all satisfy d^p <= 256) with partial off and on, every permutation of 1..6 elements (and every ordered pair of them for
# multiplicativity), every multiset of 0..6 elements, every even n in 2..10.
EXHAUSTIVE = True
TECHNIQUE = (
    "run-time-checked contracts on the real functions, exhaustive over the stated finite domain (bounded stand-in, complete for the "
    "property as stated); oracles: explicit permutation matrices built by index loops, inversion counts, binomial ranks, "
    "set(itertools.permutations), an independent recursive matching enumerator and the (n-1)!! / multinomial closed forms"
)
LEVEL_TEXT = (
    "Exhaustive run-time contract checking over the property's own finite quantifier: for every d, p in 1..4 the real symmetric_projection / "
    "antisymmetric_projection outputs (full and partial) are compared with projectors assembled from index-loop permutation matrices and "
    "with the characterising properties (Hermitian, idempotent, rank C(d+p-1,p) / C(d,p), W_pi S = S and W_pi A = sgn(pi) A for every pi in S_p, "
    "S A = 0, S + A = I for p = 2, partial forms V with V^T V = I and V V^T = projector); perm_sign on every permutation of 1..6 elements in three "
    "argument forms and on every ordered pair; unique_perms on every multiset of 0..6 elements in three presentations; perfect_matchings for "
    "n = 2..10 in four argument forms. Nothing here is a proof for d, p, n beyond those ranges; the thorough tier only widens the ranges."
)
RULE = (
    "deterministic grid = the whole stated domain (the seed only chooses the shuffled presentation of multisets and the object labels for "
    "perfect_matchings); one case per (clause, d, p) / (clause, n, form) / (clause, multiset, presentation); non-trivial = d >= 2 and p >= 2 "
    "for projectors, n >= 2 for permutations, a multiset with a repeated element, n >= 4 for matchings; distinct = distinct (clause, parameters). "
    "thorough tier adds d <= 6, p <= 5 with d^p <= 1300, permutations of 7 elements, multisets of 7 elements, n = 12."
)
EXPLANATION = LEVEL_TEXT
TRUSTED = [
    "floating-point comparison tolerances: 1e-9 for the full projectors (averages of 0/1 matrices), 1e-7 for the partial (SVD-based) forms, 1e-9 for perm_sign (LU determinant of a permutation matrix)",
    "numerical rank = number of singular values above 1e-8 (projector eigenvalues are 0/1)",
    "itertools.permutations, math.comb, math.factorial and numpy fancy indexing are correct (they build the oracles)",
    "empty inputs outside the documented domains are not judged: perm_sign([]) (IndexError), perfect_matchings(0) (RecursionError)",
    "unique_perms is judged on list/tuple arguments only (documented type list[int]; an ndarray has no .count)",
    "perfect_matchings(2) returns a 1-D array holding the single matching; it is read as one row (np.atleast_2d)",
]
ASSUMPTIONS = TRUSTED

TOL_FULL = 1e-9
TOL_SVD = 1e-7

# =============================================================================================
# prover side -- `prove(tier, seed)` (E1 call-site obligations for perm_sign / permutation_operator) is added HERE
# by the main agent.  Do not define it in the executor section below.
# =============================================================================================
from props.C18_prove import prove  # noqa: E402,F401


# =============================================================================================
# executor side
# =============================================================================================
# ------------------------------------------------------------------------------------------ oracles
def _inversions(perm):
    """number of pairs a < b with perm[a] > perm[b] (works for 0- or 1-indexed one-line notation)"""
    n = len(perm)
    return sum(1 for a in range(n) for b in range(a + 1, n) if perm[a] > perm[b])


def _sign(perm):
    return -1 if _inversions(perm) % 2 else 1


def _perm_rows(d, p, perm):
    """index form of the subsystem permutation W_pi on (C^d)^{(x)p}: W_pi |i_0 .. i_{p-1}> = |i_{pi(0)} .. i_{pi(p-1)}>.
    Returns dst with dst[i] = row index of the single 1 in column i (built by index loops, no toqito code)."""
    N = d**p
    dst = [0] * N
    for i in range(N):
        digs = []
        m = i
        for _ in range(p):
            digs.append(m % d)
            m //= d
        digs = digs[::-1]  # big-endian: subsystem 0 is the most significant digit (Kronecker order)
        j = 0
        for k in range(p):
            j = j * d + digs[perm[k]]
        dst[i] = j
    return dst


def _perm_matrix(d, p, perm):
    import numpy as np

    N = d**p
    W = np.zeros((N, N))
    for i, j in enumerate(_perm_rows(d, p, perm)):
        W[j, i] = 1.0
    return W


def _oracle_projector(d, p, anti):
    import numpy as np

    N = d**p
    P = np.zeros((N, N))
    cnt = 0
    for perm in itertools.permutations(range(p)):
        s = _sign(perm) if anti else 1
        for i, j in enumerate(_perm_rows(d, p, perm)):
            P[j, i] += s
        cnt += 1
    return P / cnt


def _rank_expected(d, p, anti):
    return math.comb(d, p) if anti else math.comb(d + p - 1, p)


def _call(which, d, p, partial, form="positional"):
    from toqito.perms import antisymmetric_projection, symmetric_projection

    f = antisymmetric_projection if which == "asym" else symmetric_projection
    if form in ("flag-int", "flag-npbool"):  # the Boolean flag written as 0 / 1 or as a numpy bool (e.g. the result of a comparison of arrays)
        import numpy as np

        return f(d, p, (1 if partial else 0) if form == "flag-int" else np.bool_(partial))
    if form == "defaults":  # p = 2, partial = False by default
        return f(d)
    if form == "keywords":
        if which == "asym":
            return f(dim=d, p_param=p, partial=partial)
        return f(dim=d, p_val=p, partial=partial)
    return f(d, p, partial)


def _as_matrix(P, N, what):
    import numpy as np

    from vt.contract import Violation

    P = np.asarray(P)
    if P.ndim != 2 or P.shape[0] != N:
        raise Violation("%s: returned an array of shape %s, expected %d rows" % (what, P.shape, N))
    if not np.all(np.isfinite(P)):
        raise Violation("%s: non-finite entries" % what)
    return P


def _full(which, p):
    import numpy as np

    from vt.contract import Violation

    d, pp = p["d"], p["p"]
    N = d**pp
    what = "%s_projection(%d, %d)" % ("antisymmetric" if which == "asym" else "symmetric", d, pp)
    P = _as_matrix(_call(which, d, pp, False, p.get("form", "positional")), N, what)
    if P.shape != (N, N):
        raise Violation("%s: shape %s, expected (%d, %d)" % (what, P.shape, N, N))
    return np.asarray(P), what


# ------------------------------------------------------------------------------------------ projector clauses
def _mk_hermitian_idempotent(which):
    def clause(p):
        import numpy as np

        from vt.contract import Violation

        P, what = _full(which, p)
        dev = float(np.max(np.abs(P - P.conj().T)))
        if dev > TOL_FULL:
            raise Violation("%s is not Hermitian: max |P - P^dagger| = %.3g" % (what, dev))
        dev = float(np.max(np.abs(P @ P - P)))
        if dev > TOL_FULL:
            raise Violation("%s is not idempotent: max |P P - P| = %.3g (trace %.6g)" % (what, dev, float(np.trace(P).real)))

    return clause


def _mk_rank(which):
    def clause(p):
        import numpy as np

        from vt.contract import Violation

        P, what = _full(which, p)
        exp = _rank_expected(p["d"], p["p"], which == "asym")
        sv = np.linalg.svd(P, compute_uv=False)
        rank = int(np.sum(sv > 1e-8))
        tr = float(np.trace(P).real)
        if rank != exp:
            raise Violation("%s has rank %d, the %s subspace has dimension %d" % (what, rank, "antisymmetric" if which == "asym" else "symmetric", exp))
        if abs(tr - exp) > TOL_FULL * max(1, P.shape[0]):
            raise Violation("%s has trace %.9g, a projector of rank %d has trace %d" % (what, tr, exp, exp))

    return clause


def _mk_perm_action(which):
    def clause(p):
        import numpy as np

        from vt.contract import Violation

        P, what = _full(which, p)
        d, pp = p["d"], p["p"]
        for perm in itertools.permutations(range(pp)):
            s = _sign(perm) if which == "asym" else 1
            dst = np.array(_perm_rows(d, pp, perm))
            WP = np.zeros_like(P)
            WP[dst, :] = P  # (W P)[dst[i], :] = P[i, :]
            PW = P[:, dst]  # (P W)[:, i] = P[:, dst[i]]
            dev = max(float(np.max(np.abs(WP - s * P))), float(np.max(np.abs(PW - s * P))))
            if dev > TOL_FULL:
                raise Violation("%s: W_pi P != %s P for pi = %s (max deviation %.3g)" % (what, "sgn(pi)" if which == "asym" else "", list(perm), dev))
        return {"permutations": math.factorial(pp)}

    return clause


def _mk_explicit(which):
    def clause(p):
        import numpy as np

        from vt.contract import Violation

        P, what = _full(which, p)
        exp = _oracle_projector(p["d"], p["p"], which == "asym")
        dev = float(np.max(np.abs(P - exp)))
        if dev > TOL_FULL:
            k = np.unravel_index(int(np.argmax(np.abs(P - exp))), P.shape)
            raise Violation("%s differs from (1/p!) sum_pi %sW_pi built from index-loop permutation matrices: max deviation %.3g at %s (got %.6g, required %.6g)" % (what, "sgn(pi) " if which == "asym" else "", dev, tuple(int(x) for x in k), P[k], exp[k]))

    return clause


def _mk_partial_orthonormal(which):
    def clause(p):
        import numpy as np

        from vt.contract import Violation

        d, pp = p["d"], p["p"]
        N = d**pp
        what = "%s_projection(%d, %d, partial=True)" % ("antisymmetric" if which == "asym" else "symmetric", d, pp)
        V = _as_matrix(_call(which, d, pp, True, p.get("form", "positional")), N, what)
        r = _rank_expected(d, pp, which == "asym")
        if V.shape != (N, r):
            raise Violation("%s has shape %s; an isometry onto a %d-dimensional subspace of C^%d has shape (%d, %d)" % (what, V.shape, r, N, N, r))
        G = V.conj().T @ V
        dev = float(np.max(np.abs(G - np.eye(r)))) if r else 0.0
        if dev > TOL_SVD:
            raise Violation("%s: columns are not orthonormal, max |V^dagger V - I| = %.3g" % (what, dev))

    return clause


def _mk_partial_span(which):
    def clause(p):
        import numpy as np

        from vt.contract import Violation

        d, pp = p["d"], p["p"]
        N = d**pp
        what = "%s_projection(%d, %d, partial=True)" % ("antisymmetric" if which == "asym" else "symmetric", d, pp)
        V = _as_matrix(_call(which, d, pp, True, p.get("form", "positional")), N, what)
        exp = _oracle_projector(d, pp, which == "asym")
        got = V @ V.conj().T
        dev = float(np.max(np.abs(got - exp)))
        if dev > TOL_SVD:
            raise Violation("%s: V V^dagger is not the projector onto the %s subspace (max deviation %.3g, V has shape %s)" % (what, "antisymmetric" if which == "asym" else "symmetric", dev, V.shape))

    return clause


def pair_orthogonal(p):
    """S A = A S = 0 (p >= 2; for a single copy both projections are the identity)"""
    import numpy as np

    from vt.contract import Violation

    S, _ = _full("sym", p)
    A, _ = _full("asym", p)
    dev = max(float(np.max(np.abs(S @ A))), float(np.max(np.abs(A @ S))))
    if dev > TOL_FULL:
        raise Violation("symmetric and antisymmetric projections for d=%d, p=%d are not orthogonal: max |S A| = %.3g" % (p["d"], p["p"], dev))


def pair_p2_identity(p):
    """p = 2: S + A = I"""
    import numpy as np

    from vt.contract import Violation

    if p["p"] != 2:
        raise ValueError("pair.p2_identity is only stated for p = 2")
    S, _ = _full("sym", p)
    A, _ = _full("asym", p)
    dev = float(np.max(np.abs(S + A - np.eye(p["d"] ** 2))))
    if dev > TOL_FULL:
        raise Violation("d=%d, p=2: symmetric + antisymmetric projection != identity (max deviation %.3g, trace of the sum %.6g, expected %d)" % (p["d"], dev, float(np.trace(S + A).real), p["d"] ** 2))


# ------------------------------------------------------------------------------------------ perm_sign
def _perm_arg(perm, form):
    import numpy as np

    if form == "ndarray":
        return np.array(perm, dtype=int)
    if form in ("uint8", "uint64", "int8"):  # the permutation held in an array of another numeric dtype
        return np.array(perm, dtype=form)
    if form == "tuple":
        return tuple(perm)
    return list(perm)


def perm_sign_inversions(p):
    """perm_sign(pi) == (-1)^inversions(pi) for every permutation pi of 1..n (1-indexed, as documented)"""
    from toqito.perms import perm_sign

    from vt.contract import Violation

    n, form = p["n"], p.get("form", "list")
    cnt = 0
    for perm in itertools.permutations(range(1, n + 1)):
        got = perm_sign(_perm_arg(perm, form))
        exp = _sign(perm)
        if not abs(float(got) - exp) <= TOL_FULL:
            raise Violation("perm_sign(%s) = %r, (-1)^inversions = %d (%d inversions)" % (list(perm), got, exp, _inversions(perm)))
        cnt += 1
    return {"permutations": cnt}


def perm_sign_multiplicative(p):
    """perm_sign(sigma o tau) == perm_sign(sigma) * perm_sign(tau) for every ordered pair in S_n (or sigma x generators)"""
    from toqito.perms import perm_sign

    from vt.contract import Violation

    n = p["n"]
    perms = list(itertools.permutations(range(1, n + 1)))
    table = {pm: float(perm_sign(list(pm))) for pm in perms}
    for pm, s in table.items():
        if not abs(abs(s) - 1) <= TOL_FULL:
            raise Violation("perm_sign(%s) = %r is not +-1" % (list(pm), s))
    if p.get("pairs", "all") == "all":
        right = perms
    else:  # adjacent transpositions generate S_n
        right = []
        for k in range(n - 1):
            t = list(range(1, n + 1))
            t[k], t[k + 1] = t[k + 1], t[k]
            right.append(tuple(t))
    first = p.get("first")  # optional chunking by sigma(1)
    cnt = 0
    for sg in perms:
        if first is not None and sg[0] != first:
            continue
        for tau in right:
            comp = tuple(sg[tau[i] - 1] for i in range(n))  # (sigma o tau)(i) = sigma(tau(i))
            if abs(table[comp] - table[sg] * table[tau]) > TOL_FULL:
                raise Violation("perm_sign is not multiplicative: sign(%s o %s) = sign(%s) = %r, but %r * %r" % (list(sg), list(tau), list(comp), table[comp], table[sg], table[tau]))
            cnt += 1
    ident = tuple(range(1, n + 1))
    if abs(table[ident] - 1) > TOL_FULL:
        raise Violation("perm_sign(identity on %d elements) = %r" % (n, table[ident]))
    return {"pairs": cnt}


# ------------------------------------------------------------------------------------------ unique_perms
_RELABEL = [7, -3, 0, 100, 2, 5, -11, 42]


def _multiset_arg(p):
    import random

    elems = list(p["elements"])
    pres = p.get("presentation", "sorted")
    if pres == "shuffled":
        random.Random(p.get("seed", 0)).shuffle(elems)
    elif pres == "relabelled":
        elems = [_RELABEL[e - 1] for e in elems][::-1]
    elif pres == "tuple":
        elems = tuple(elems)
    return elems


def unique_perms_no_duplicates(p):
    """no rearrangement is listed twice; every listed item is a tuple of the right length"""
    from toqito.perms import unique_perms

    from vt.contract import Violation

    elems = _multiset_arg(p)
    out = list(unique_perms(elems))
    seen = set()
    for t in out:
        if not isinstance(t, tuple) or len(t) != len(elems):
            raise Violation("unique_perms(%s) yielded %r, not a tuple of length %d" % (list(elems), t, len(elems)))
        if t in seen:
            raise Violation("unique_perms(%s) lists the rearrangement %s more than once (%d items, %d distinct)" % (list(elems), t, len(out), len(set(out))))
        seen.add(t)


def unique_perms_all_rearrangements(p):
    """the listed set equals set(itertools.permutations(elements)); its size is the multinomial coefficient"""
    from toqito.perms import unique_perms

    from vt.contract import Violation

    elems = _multiset_arg(p)
    got = set(unique_perms(elems))
    exp = set(itertools.permutations(list(elems)))
    count = math.factorial(len(elems))
    for v in set(elems):
        count //= math.factorial(list(elems).count(v))
    if len(exp) != count:
        raise AssertionError("oracle mismatch (multinomial vs brute force)")
    if got != exp:
        missing = sorted(exp - got)[:3]
        extra = sorted(got - exp)[:3]
        raise Violation("unique_perms(%s): %d distinct rearrangements listed, %d exist; missing e.g. %s, not a rearrangement e.g. %s" % (list(elems), len(got), count, missing, extra))


def unique_perms_frame(p):
    """the argument list is left unchanged, and a second call gives the same listing"""
    from toqito.perms import unique_perms

    from vt.contract import Violation

    elems = _multiset_arg(p)
    before = list(elems)
    a = list(unique_perms(elems))
    if list(elems) != before:
        raise Violation("unique_perms modified its argument: %s -> %s" % (before, list(elems)))
    b = list(unique_perms(elems))
    if a != b:
        raise Violation("unique_perms(%s) gives a different listing when called again" % before)


# ------------------------------------------------------------------------------------------ perfect_matchings
def _double_factorial_odd(n):
    """(n-1)!! for even n"""
    r = 1
    for k in range(n - 1, 0, -2):
        r *= k
    return r


def _all_matchings(objs):
    """independent recursive enumerator: pair the first object with each other one"""
    objs = list(objs)
    if not objs:
        yield frozenset()
        return
    a = objs[0]
    for k in range(1, len(objs)):
        rest = objs[1:k] + objs[k + 1 :]
        for m in _all_matchings(rest):
            yield m | {frozenset((a, objs[k]))}


def _pm_objects(p):
    import random

    import numpy as np

    n, form = p["n"], p.get("form", "int")
    if form == "int":
        return n, list(range(n))
    if form == "list":
        return list(range(n)), list(range(n))
    if form == "ndarray":
        return np.arange(n), list(range(n))
    if form == "labels":  # distinct, non-contiguous, unsorted objects
        labs = random.Random(p.get("seed", 0)).sample(range(-50, 200), n)
        return (np.array(labs) if p.get("as_array") else list(labs)), labs
    if form == "close-labels":  # distinct integer objects that are close in relative terms (an enumerator of objects compares them exactly)
        base = 10**6 if p.get("seed", 0) % 2 == 0 else 2**40
        labs = [base + k for k in random.Random(p.get("seed", 0)).sample(range(0, 3 * n), n)]
        return (np.array(labs) if p.get("as_array") else list(labs)), labs
    if form == "float-labels":  # objects that are not integers (half-integers, exactly representable): an enumerator of "objects" must not coerce them
        labs = [x + 0.5 for x in random.Random(p.get("seed", 0)).sample(range(-20, 60), n)]
        return (np.array(labs) if p.get("as_array") else list(labs)), labs
    raise ValueError(form)


def _pm_rows(p):
    import numpy as np

    from toqito.perms import perfect_matchings

    from vt.contract import Violation

    arg, objs = _pm_objects(p)
    n = len(objs)
    out = np.atleast_2d(np.asarray(perfect_matchings(arg)))
    if out.ndim != 2 or out.shape[1] != n:
        raise Violation("perfect_matchings(%s objects) returned an array of shape %s, expected rows of length %d" % (n, np.asarray(out).shape, n))
    return out, objs, n


def perfect_matchings_valid_distinct(p):
    """every row pairs up all n objects (each object exactly once), and no matching is listed twice"""
    from vt.contract import Violation

    out, objs, n = _pm_rows(p)
    seen = set()
    for row in out:
        row = [(int(x) if float(x) == int(x) else float(x)) for x in row]
        if sorted(row) != sorted(objs):
            raise Violation("perfect_matchings(n=%d, form=%s): row %s does not use every object exactly once" % (n, p.get("form"), row))
        m = frozenset(frozenset((row[2 * k], row[2 * k + 1])) for k in range(n // 2))
        if m in seen:
            raise Violation("perfect_matchings(n=%d, form=%s): the matching %s is listed more than once" % (n, p.get("form"), row))
        seen.add(m)
    return {"rows": len(out)}


def perfect_matchings_all(p):
    """the listed set of matchings is the set of all (n-1)!! perfect matchings"""
    from vt.contract import Violation

    out, objs, n = _pm_rows(p)
    exp_count = _double_factorial_odd(n)
    if out.shape[0] != exp_count:
        raise Violation("perfect_matchings(n=%d, form=%s) lists %d rows, there are (n-1)!! = %d perfect matchings" % (n, p.get("form"), out.shape[0], exp_count))
    got = set()
    for row in out:
        row = [(int(x) if float(x) == int(x) else float(x)) for x in row]
        got.add(frozenset(frozenset((row[2 * k], row[2 * k + 1])) for k in range(n // 2)))
    exp = set(_all_matchings(objs))
    if len(exp) != exp_count:
        raise AssertionError("oracle mismatch ((n-1)!! vs recursive enumeration)")
    if got != exp:
        miss = [sorted(sorted(pr) for pr in m) for m in list(exp - got)[:2]]
        raise Violation("perfect_matchings(n=%d, form=%s): %d of %d matchings are missing, e.g. %s" % (n, p.get("form"), len(exp - got), exp_count, miss))


def perfect_matchings_odd_empty(p):
    """documented: an odd number of objects has no perfect matching (zero rows)"""
    import numpy as np

    from toqito.perms import perfect_matchings

    from vt.contract import Violation

    n = p["n"]
    out = np.asarray(perfect_matchings(n if p.get("form", "int") == "int" else list(range(n))))
    if out.size != 0:
        raise Violation("perfect_matchings of %d objects returned %d entries, expected none" % (n, out.size))


CLAUSES = {
    "sym.hermitian_idempotent": _mk_hermitian_idempotent("sym"),
    "sym.rank": _mk_rank("sym"),
    "sym.perm_fixed": _mk_perm_action("sym"),
    "sym.explicit": _mk_explicit("sym"),
    "sym.partial_orthonormal": _mk_partial_orthonormal("sym"),
    "sym.partial_span": _mk_partial_span("sym"),
    "asym.hermitian_idempotent": _mk_hermitian_idempotent("asym"),
    "asym.rank": _mk_rank("asym"),
    "asym.perm_sign_action": _mk_perm_action("asym"),
    "asym.explicit": _mk_explicit("asym"),
    "asym.partial_orthonormal": _mk_partial_orthonormal("asym"),
    "asym.partial_span": _mk_partial_span("asym"),
    "pair.orthogonal": pair_orthogonal,
    "pair.p2_identity": pair_p2_identity,
    "perm_sign.inversions": perm_sign_inversions,
    "perm_sign.multiplicative": perm_sign_multiplicative,
    "unique_perms.no_duplicates": unique_perms_no_duplicates,
    "unique_perms.all_rearrangements": unique_perms_all_rearrangements,
    "unique_perms.frame": unique_perms_frame,
    "perfect_matchings.valid_distinct": perfect_matchings_valid_distinct,
    "perfect_matchings.all": perfect_matchings_all,
    "perfect_matchings.odd_empty": perfect_matchings_odd_empty,
}
for _k, _f in CLAUSES.items():
    _head = _k.split(".")[0]
    _f.function = {"sym": "symmetric_projection", "asym": "antisymmetric_projection", "pair": "symmetric_projection+antisymmetric_projection"}.get(_head, _head)
    _f.__name__ = _k.replace(".", "_")


def _sym_class(d, p, partial):
    if p == 1:
        c = "p=1"
    elif d == 1:
        c = "d=1,p>=2"
    else:
        c = "d>=2,p>=2"
    return "symmetric_projection/%s%s" % (c, "/partial" if partial else "")


def _asym_class(d, p, partial):
    if p == 1:
        c = "p=1"
    elif p > d:
        c = "p>d(zero)"
    elif p % 2 == 0:
        c = "p-even"
    else:
        c = "p-odd"
    return "antisymmetric_projection/%s%s" % (c, "/partial" if partial else "")


def _multisets(k):
    """all multisets of size k, as non-decreasing tuples over the alphabet 1..k (every multiplicity pattern with every choice of labels)"""
    return list(itertools.combinations_with_replacement(range(1, k + 1), k))


def cases(tier, seed):
    thorough = tier == "thorough"
    out = []

    def add(clause, params, ic, nontrivial=True):
        out.append(dict(clause=clause, params=params, input_class=ic, nontrivial=nontrivial))

    # ---- projectors: the whole stated domain d, p in 1..4 (d^p <= 256), partial off / on
    grid = [(d, p) for d in range(1, 5) for p in range(1, 5) if d**p <= 256]
    if thorough:
        grid += [(d, p) for d in range(1, 7) for p in range(1, 6) if d**p <= 1300 and (d, p) not in grid]
    for d, p in grid:
        nt = d >= 2 and p >= 2
        prm = dict(d=d, p=p)
        for cl in ("sym.hermitian_idempotent", "sym.rank", "sym.perm_fixed", "sym.explicit"):
            add(cl, prm, _sym_class(d, p, False), nt)
        for cl in ("sym.partial_orthonormal", "sym.partial_span"):
            add(cl, prm, _sym_class(d, p, True), nt)
        for cl in ("asym.hermitian_idempotent", "asym.rank", "asym.perm_sign_action", "asym.explicit"):
            add(cl, prm, _asym_class(d, p, False), nt)
        for cl in ("asym.partial_orthonormal", "asym.partial_span"):
            add(cl, prm, _asym_class(d, p, True), nt)
        if (d, p) in ((2, 2), (3, 2), (2, 3), (3, 3)):
            for form in ("flag-int", "flag-npbool"):
                q = dict(d=d, p=p, form=form)
                for cl in ("sym.partial_orthonormal", "sym.partial_span"):
                    add(cl, q, _sym_class(d, p, True) + "/" + form, nt)
                for cl in ("asym.partial_orthonormal", "asym.partial_span"):
                    add(cl, q, _asym_class(d, p, True) + "/" + form, nt)
                add("sym.explicit", q, _sym_class(d, p, False) + "/" + form, nt)
                add("asym.explicit", q, _asym_class(d, p, False) + "/" + form, nt)
        pc = "pair/" + _asym_class(d, p, False).split("/")[1] + ("/d=1" if d == 1 and p >= 2 else "")
        if p >= 2:  # for p = 1 both subspaces are the whole space, so orthogonality is only claimed for p >= 2
            add("pair.orthogonal", prm, pc, nt)
        if p == 2:
            add("pair.p2_identity", prm, pc, nt)
            # default arguments (p = 2, partial = False) and keyword form
            for form in ("defaults", "keywords"):
                q = dict(d=d, p=2, form=form)
                add("sym.explicit", q, _sym_class(d, 2, False), nt)
                add("asym.explicit", q, _asym_class(d, 2, False), nt)
                add("pair.p2_identity", q, pc, nt)
    # ---- perm_sign: every permutation of 1..6 elements, three argument forms; every ordered pair
    nmax = 7 if thorough else 6
    for n in range(1, nmax + 1):
        for form in ("list", "ndarray", "tuple") + (("uint8", "uint64", "int8") if n <= 5 else ()):
            add("perm_sign.inversions", dict(n=n, form=form), "perm_sign/S_n/%s" % form, n >= 2)
        if n <= 5:
            add("perm_sign.multiplicative", dict(n=n, pairs="all"), "perm_sign/pairs", n >= 2)
        elif n == 6:
            for first in range(1, 7):
                add("perm_sign.multiplicative", dict(n=6, pairs="all", first=first), "perm_sign/pairs", True)
        else:
            add("perm_sign.multiplicative", dict(n=n, pairs="generators"), "perm_sign/generators", True)
    # ---- unique_perms: every multiset of 0..6 elements, sorted / shuffled / relabelled-and-reversed / tuple
    kmax = 7 if thorough else 6
    for k in range(0, kmax + 1):
        for ms in _multisets(k):
            rep = len(set(ms)) < len(ms)
            for pres in ("sorted", "shuffled", "relabelled"):
                q = dict(elements=list(ms), presentation=pres)
                if pres == "shuffled":
                    q["seed"] = seed + k
                add("unique_perms.no_duplicates", q, "unique_perms/%s" % pres, rep)
                add("unique_perms.all_rearrangements", q, "unique_perms/%s" % pres, rep)
            add("unique_perms.frame", dict(elements=list(ms), presentation="sorted"), "unique_perms/sorted", rep)
            if k <= 4:
                add("unique_perms.all_rearrangements", dict(elements=list(ms), presentation="tuple"), "unique_perms/tuple", rep)
    # ---- perfect_matchings: every even n in 2..10, four argument forms
    for n in range(2, (12 if thorough else 10) + 1, 2):
        forms = [dict(n=n, form="int"), dict(n=n, form="list"), dict(n=n, form="ndarray"), dict(n=n, form="labels", seed=seed), dict(n=n, form="labels", seed=seed + 1, as_array=True), dict(n=n, form="float-labels", seed=seed), dict(n=n, form="float-labels", seed=seed + 1, as_array=True), dict(n=n, form="close-labels", seed=seed), dict(n=n, form="close-labels", seed=seed + 1, as_array=True)]
        for q in forms:
            ic = "perfect_matchings/%s" % q["form"]
            add("perfect_matchings.valid_distinct", q, ic, n >= 4)
            add("perfect_matchings.all", q, ic, n >= 4)
    for n in (1, 3, 5, 7, 9):
        add("perfect_matchings.odd_empty", dict(n=n, form="int"), "perfect_matchings/odd", n >= 3)
        add("perfect_matchings.odd_empty", dict(n=n, form="list"), "perfect_matchings/odd", n >= 3)
    return out


# =============================================================================================
# frame coverage shared by all properties (E2 obligations for every public function of the anchor files + run-time frame cases)
# =============================================================================================
from props import frame_all as _fa  # noqa: E402
from props.frame_common import frame_generic as _fg, frame_object as _fo  # noqa: E402

CLAUSES.setdefault("frame.generic", _fg)
CLAUSES.setdefault("frame.object", _fo)
_cases_before_frames = cases
_prove_before_frames = globals().get("prove")


def cases(tier, seed):  # noqa: F811
    return _cases_before_frames(tier, seed) + _fa.frame_cases(ID, seed)


def prove(tier, seed):  # noqa: F811
    from vt.pyvc.termproofs import merge

    b = _fa.prove_frames(ID, lambda s: _fa.frame_cases(ID, s))(tier, seed)
    if _prove_before_frames is None:
        return b
    return merge(_prove_before_frames(tier, seed), b)

LEVEL_TEXT = LEVEL_TEXT + (" Also proved for ALL local dimensions d (E1-array/bilinear; p = 2..4, and 5 in the thorough tier): the full symmetric / antisymmetric projectors equal "
                           "(1/p!) sum_sigma [sgn(sigma)] W_sigma entrywise (permutation_operator and perm_sign by their proved contracts), and as lemmas over that postcondition (p = 2, 3; 4 in the thorough tier): "
                           "Hermitian, idempotent, W_tau P = P resp. sgn(tau) P for generators tau of S_p, P_sym P_anti = 0, P_sym + P_anti = I for p = 2, trace = binom(d+p-1, p) resp. binom(d, p).")
from props.C18_bilinear import ASSUMED as _BIL_ASSUMED  # noqa: E402

ASSUMPTIONS = list(ASSUMPTIONS) + list(_BIL_ASSUMED)
if LEVEL == "exploration":
    LEVEL = "other"
LEVEL_TEXT = LEVEL_TEXT + (" Additionally proved (E2, taint analysis of the real AST): every public function and method in this property's anchor files writes through "
                           "no reference reachable from its arguments (or from self), so results do not depend on call order and callers' arrays / lists are not modified; "
                           "a run-time frame clause replays the same claim on concrete arguments.")
EXPLANATION = LEVEL_TEXT
if "E2-frame" not in globals().get("ENGINES", []):
    ENGINES = list(globals().get("ENGINES", ["E3-E4-rtc"])) + ["E2-frame"]
