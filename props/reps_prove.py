"""E1-integer proof of the `reps > 1` branch of NonlocalGame.__init__ / ExtendedNonlocalGame.__init__ (contracts/reps_ctor.py):
the referee table of the repeated game is the product table, for reps = 2, 3 (4 thorough) and all axis sizes."""


MUTS = [
    ("j_ind = update_odometer(j_ind, num_bob_in * np.ones(reps))", "j_ind = update_odometer(j_ind, num_alice_in * np.ones(reps))"),
    ("i_ind[k], j_ind[k]]", "j_ind[k], i_ind[k]]"),
    ("to_tensor[k] = pred_mat", "to_tensor[reps - 1 - k] = pred_mat"),
    ("for j in range(num_bob_in**reps):", "for j in range(num_alice_in**reps):"),
    ("self.prob_mat = tensor(prob_mat, reps)", "self.prob_mat = tensor(prob_mat, reps - 1)"),
    ("            self.pred_mat = pred_mat2\n            self.reps = reps", "            self.pred_mat = pred_mat\n            self.reps = reps"),
]


def prove_reps(rel, qual, lead, replay, tag, tier):
    from contracts.odometer import instantiation_lemma
    from contracts.reps_ctor import RepsConstructorContract
    from vt import extract
    from vt.pyvc.intvc import Engine

    src = extract.Source(rel)
    rs = (2, 3, 4) if tier == "thorough" else (2, 3)

    def run(s, reps_list):
        out = []
        for reps in reps_list:
            e = Engine(s.function(qual), RepsConstructorContract(lead, reps), qual, "reps=%d, all axis sizes" % reps, timeout_ms=20000)
            out += e.run()
        return out

    records = run(src, rs)
    for reps in rs:
        r = instantiation_lemma(reps)
        records.append(dict(function="update_odometer", instance="length %d" % reps, kind="lemma", text="the postcondition proved for update_odometer (any length) implies its quantifier-free instance at length %d assumed at the call sites" % reps, status="discharged" if r == "unsat" else "undecided", backend="z3", claim=False, ms=0.0, model=None))
    for i, x in enumerate(records):
        x["_id"] = "%s.%d" % (tag, i)
        x["clean"] = True
        if x["status"] != "discharged":
            x["replay"] = list(replay)
    planted = {"tried": 0, "refuted": 0, "survivors": [], "anchors_missing": [], "detail": []}
    for old, new in (MUTS if tier == "thorough" else MUTS[:3]):
        try:
            s2 = src.mutated(old, new)
        except KeyError:
            planted["anchors_missing"].append("%s: %s" % (qual, old[:40]))
            continue
        bad = [x for x in run(s2, (2,)) if x["status"] != "discharged"]
        planted["tried"] += 1
        if bad:
            planted["refuted"] += 1
            planted["detail"].append({"mutant": "%s: %s -> %s" % (qual, old[:50], new[:50]), "not_discharged": len(bad), "first": "%s: %s [%s]" % (bad[0]["kind"], bad[0]["text"][:90], bad[0]["status"])})
        else:
            planted["survivors"].append("%s: %s" % (qual, old[:50]))
    claims = sum(1 for x in records if x.get("claim"))
    reach = [x for x in records if x["kind"] == "reachability"]
    sc = {
        "nonzero_claim_obligations": {"ok": claims > 0, "detail": {qual: claims}},
        "preconditions_satisfiable": {"ok": bool(reach) and all(x["status"] == "discharged" for x in reach), "detail": {"instances": len(reach)}},
        "planted_bugs_all_refuted": {"ok": planted["tried"] == planted["refuted"] and not planted["anchors_missing"], "detail": planted},
    }
    return dict(records=records, functions=[src.info(qual)], instances=len(reach), planted=planted, selfchecks=sc)
