"""Deductive part of C15 (E1-term): is_ppt is `is_positive_semidefinite(partial_transpose(mat, [sys - 1], dim), tol)` -- the 1-indexed
party is converted to partial_transpose's 0-indexed subsystem, the tolerance is passed on -- and is_npt is its negation with the same
arguments; both over callee contracts (partial_transpose is proved under C03; is_positive_semidefinite is a dependency contract)."""


def term_formula15(p):
    """bounded replay: is_ppt == [lambda_min(partial transpose) >= -tol], is_npt == not is_ppt, either party"""
    import numpy as np

    from contracts.specs_np import ref_partial_transpose
    from toqito.state_props import is_npt, is_ppt
    from vt.contract import Violation

    rng = np.random.default_rng(p.get("seed", 0))
    for dims in ([2, 2], [2, 3], [3, 2], [3, 3]):
        for trial in range(6):
            d = dims[0] * dims[1]
            g = rng.standard_normal((d, rng.integers(1, d + 1))) + 1j * rng.standard_normal((d, 1))
            rho = g @ g.conj().T
            rho /= np.trace(rho)
            for party in (1, 2):
                lam = float(np.min(np.linalg.eigvalsh(ref_partial_transpose(rho, [party - 1], dims, dims))))
                for tol in (1e-8, 0.05):
                    if abs(lam + tol) < 1e-3 * max(tol, 1e-6) + 1e-10:
                        continue
                    exp = lam >= -tol
                    got = bool(is_ppt(rho, party, dims, tol))
                    if got != exp:
                        raise Violation("is_ppt(dims=%s, sys=%d, tol=%g) = %s but lambda_min of the partial transpose is %.4g" % (dims, party, tol, got, lam))
                    if bool(is_npt(rho, party, dims, tol)) == got:
                        raise Violation("is_npt is not the negation of is_ppt (dims=%s, sys=%d)" % (dims, party))


term_formula15.function = "is_ppt"
EXTRA_CLAUSES = {"term.formula15": term_formula15}


def prove(tier, seed):
    from vt.pyvc.termproofs import prove_terms

    muts = [("is_ppt", "partial_transpose(mat, [sys - 1], dim)", "partial_transpose(mat, [sys], dim)"), ("is_npt", "return not is_ppt(mat, sys, dim, tol)", "return not is_ppt(mat, sys, dim)"), ("is_ppt", "dim), atol=tol)", "dim), tol)"), ("is_ppt", "dim), atol=tol)", "dim))")]
    return prove_terms(["is_ppt", "is_npt"], muts, tier, "c15", replay_clause="term.formula15")
