"""E1-array/bilinear for C18: symmetric_projection(d, p) and antisymmetric_projection(d, p) (full, non-partial form) proved equal to
   P[(i_1..i_p), (j_1..j_p)] = (1/p!) sum_sigma  eps(sigma) * prod_k [i_k == j_sigma(k)]      (eps = 1 / the sign of sigma)
for ALL local dimensions d (p enumerated), with permutation_operator and perm_sign seen through their (proved) contracts; and the
statements of the property as lemmas over that postcondition: Hermitian, idempotent, fixed by / signed under every subsystem permutation,
mutually orthogonal, summing to the identity for p = 2, and trace = binom(d+p-1, p) / binom(d, p) (the rank of an idempotent is its trace)."""
from __future__ import annotations

import itertools

REL = {"symmetric_projection": "toqito/perms/symmetric_projection.py", "antisymmetric_projection": "toqito/perms/antisymmetric_projection.py"}
ASSUMED = [
    "np.zeros(shape) is the zero matrix, `+=` / `/` on arrays are entrywise, itertools.permutations enumerates every permutation once (the enumeration is executed concretely for the fixed p)",
    "antisymmetric_projection is proved under d >= p; for d < p the function returns np.zeros explicitly (bounded clause)",
    "the partial=True (isometry) forms go through scipy.linalg.orth and stay bounded",
    "exact arithmetic: 1/p! and the signs are rationals; floating-point rounding of the accumulation is not modelled",
]


def _d():
    from vt.pyvc import index_proofs as IP

    return IP.atoms("d", 1)[0]


def sign_of(perm):
    inv = sum(1 for i in range(len(perm)) for j in range(i + 1, len(perm)) if perm[i] > perm[j])
    return -1 if inv % 2 else 1


def spec_projector(d, p, anti):
    import math

    import sympy as sp

    from vt.pyvc import bilinear as BL
    from vt.pyvc import sym

    def g(idx):
        I = sym.unflatten(sym.as_num(idx[0], d**p), [d] * p, "C")
        J = sym.unflatten(sym.as_num(idx[1], d**p), [d] * p, "C")
        terms = []
        for sg in itertools.permutations(range(p)):
            terms.append(BL.Term(sp.Rational(sign_of(sg) if anti else 1, math.factorial(p)), [], [(I[k], J[sg[k]]) for k in range(p)]))
        return BL.Poly(terms)

    return sym.SymArray((d**p, d**p), g, "poly")


def spec_permop(d, p, tau):
    """W_tau[(i), (j)] = prod_k [i_k == j_tau(k)]"""
    from vt.pyvc import bilinear as BL
    from vt.pyvc import sym

    def g(idx):
        I = sym.unflatten(sym.as_num(idx[0], d**p), [d] * p, "C")
        J = sym.unflatten(sym.as_num(idx[1], d**p), [d] * p, "C")
        return BL.Poly([BL.Term(1, [], [(I[k], J[tau[k]]) for k in range(p)])])

    return sym.SymArray((d**p, d**p), g, "poly")


def _zeros(interp, args, kw):
    import sympy as sp

    from vt.pyvc import bilinear as BL
    from vt.pyvc import sym

    shp = args[0] if isinstance(args[0], (tuple, list)) else (args[0],)
    return sym.SymArray(tuple(sp.sympify(x) for x in shp), lambda idx: BL.Poly([]), "poly")


def _permutations(interp, args, kw):
    return list(itertools.permutations([int(x) for x in args[0]]))


def _permop_value(interp, args, kw):
    from contracts import index_layer as IL

    IL.summary_permutation_operator(interp, args, kw)  # call-site preconditions (claimed)
    a = IL.bind(["dim", "perm", "inv_perm", "is_sparse"], {"inv_perm": False, "is_sparse": False}, args, kw)
    perm = IL._perm_list(a["perm"])
    dim = a["dim"]
    d = [dim] * len(perm) if not hasattr(dim, "__len__") else list(dim)
    return IL.spec_permutation_operator(d, perm, bool(a["inv_perm"]))


def records(over=None, pmax=3):
    import sympy as sp

    from contracts import index_layer as IL
    from vt import extract
    from vt.pyvc.driver import verify_instance

    S = {k: extract.Source(v) for k, v in REL.items()}
    S.update(over or {})
    d = _d()
    out = []
    con = {"np.zeros": _zeros, "permutations": _permutations, "permutation_operator": _permop_value, "perm_sign": IL.summary_perm_sign}
    for name, anti in (("symmetric_projection", False), ("antisymmetric_projection", True)):
        for p in range(2, pmax + 1):
            recs, ms = verify_instance(name, "%s(d, %d) == (1/%d!) sum_sigma %sW_sigma entrywise; all d%s" % (name, p, p, "sgn(sigma) " if anti else "", " >= %d" % p if anti else ""), {name: S[name].function(name)}, con, (lambda p=p, anti=anti: ([d, p], {}, [sp.Ge(d, p)] if anti else [])), (lambda a, k, p=p, anti=anti: spec_projector(d, p, anti)), (lambda a, k, p=p: [[d] * p, [d] * p]), atoms=[d])
            for x in recs:
                x["clean"] = False
                x["engine"] = "E1-array/bilinear"
            out += recs
    for i, x in enumerate(out):
        x["_id"] = "bil.c18.%d" % i
    return out


def lemmas(pmax=3):
    import math

    import sympy as sp

    from vt.pyvc import bilinear as BL
    from vt.pyvc import sym
    from vt.pyvc.driver import fine_index
    from vt.pyvc.interp import Ctx

    d = _d()
    out = []

    def check(name, text, build, axes):
        sym.reset_world()
        ctx = Ctx([], ())
        try:
            lhs, rhs = build()
            idx = [fine_index(rad, "kx"[i])[0] for i, rad in enumerate(axes)]
            res = BL.polys_equal(ctx, lhs.get(tuple(idx)), rhs.get(tuple(idx)))
        except Exception as ex:
            res = dict(status="undecided", backend="-", model=None, detail="%s: %s" % (type(ex).__name__, str(ex)[:200]), ms=0.0)
        out.append(dict(function="(lemma over contracts)", instance=name, kind="lemma", text=text, claim=True, clean=False, engine="E1-array/bilinear", path=0, **res))

    def trace(A, n):
        def g(idx):
            W = sym.world()
            t = W.fresh_digit("t", n)
            tn = sym.Num([(t, n)])
            return BL.Poly([BL.Term(x.coef, x.factors, x.deltas, list(x.bound) + [(t, n)]) for x in BL.to_poly(A.get((tn, tn))).terms])

        return sym.SymArray((sp.Integer(1), sp.Integer(1)), g, "poly")

    def const(v):
        return sym.SymArray((sp.Integer(1), sp.Integer(1)), lambda idx: BL.Poly([BL.Term(v)]), "poly")

    zero = lambda n: sym.SymArray((n, n), lambda idx: BL.Poly([]), "poly")
    for p in range(2, pmax + 1):
        n = d**p
        ax = [[d] * p, [d] * p]
        for anti in (False, True):
            nm = "antisymmetric" if anti else "symmetric"
            P = lambda anti=anti, p=p: spec_projector(d, p, anti)
            check("L-herm %s p=%d" % (nm, p), "%s projector is Hermitian (real and symmetric), all d" % nm, (lambda P=P: (P(), P().T)), ax)
            check("L-idem %s p=%d" % (nm, p), "%s projector is idempotent: P @ P == P, all d" % nm, (lambda P=P: (BL.matmul(P(), P()), P())), ax)
            for tau in itertools.permutations(range(p)):
                if tau == tuple(range(p)) or (p >= 3 and tau not in ((1, 0) + tuple(range(2, p)), tuple(range(1, p)) + (0,))):
                    continue  # a transposition and the full cycle generate S_p; for p = 2 the swap
                sg = sign_of(tau) if anti else 1
                check("L-perm %s p=%d tau=%s" % (nm, p, list(tau)), "W_tau @ P == %sP for the subsystem permutation tau, all d" % ("sgn(tau) " if anti else ""), (lambda P=P, tau=tau, sg=sg, p=p: (BL.matmul(spec_permop(d, p, tau), P()), BL.scale(sg, P()))), ax)
            rank = sp.expand_func(sp.binomial(d, p)) if anti else sp.expand_func(sp.binomial(d + p - 1, p))
            check("L-trace %s p=%d" % (nm, p), "trace (= rank of an idempotent) equals %s, all d" % ("binom(d, p)" if anti else "binom(d+p-1, p)"), (lambda P=P, n=n, rank=rank: (trace(P(), n), const(sp.expand(rank)))), [[], []])
        check("L-orth p=%d" % p, "P_sym @ P_anti == 0, all d", (lambda p=p, n=n: (BL.matmul(spec_projector(d, p, False), spec_projector(d, p, True)), zero(n))), ax)
    check("L-sum p=2", "P_sym + P_anti == identity for p = 2, all d", (lambda: (BL.add_arrays(spec_projector(d, 2, False), spec_projector(d, 2, True)), spec_permop(d, 2, (0, 1)))), [[d, d], [d, d]])
    for i, x in enumerate(out):
        x["_id"] = "bil.c18.lemma.%d" % i
    return out


MUTANTS = [
    ("symmetric_projection", "sym_proj /= p_fac", "sym_proj /= p_val"),
    ("antisymmetric_projection", "perm_sign(p_list[j, :] + 1) * permutation_operator", "permutation_operator"),
    ("antisymmetric_projection", "anti_proj = anti_proj / p_fac", "anti_proj = anti_proj / 2"),
]


def planted():
    from vt import extract

    out = {"tried": 0, "refuted": 0, "survivors": [], "anchors_missing": [], "detail": []}
    for key, old, new in MUTANTS:
        try:
            m = extract.Source(REL[key]).mutated(old, new)
        except KeyError:
            out["anchors_missing"].append("%s: %s" % (key, old[:50]))
            continue
        bad = [x for x in records({key: m}) if x["status"] != "discharged" and x["function"] == key]
        out["tried"] += 1
        if bad:
            out["refuted"] += 1
            out["detail"].append({"mutant": "%s: %s -> %s" % (key, old[:50], new[:50]), "not_discharged": len(bad), "first": bad[0]["text"][:120]})
        else:
            out["survivors"].append("%s: %s" % (key, old[:60]))
    return out
