"""C13 -- state distances and fidelities equal their documented definitions and satisfy the known relations.

Bounded stand-in only (no deductive content: sqrtm, nuclear norms, eigenvalues of floats).  Every clause calls the REAL
toqito function and compares with an oracle computed here by a different route:
  * Hermitian eigendecompositions (np.linalg.eigh) for matrix square roots instead of scipy.linalg.sqrtm,
  * singular values / eigenvalues of the Hermitian difference for the trace norm,
  * entrywise Frobenius sums for Hilbert-Schmidt,
  * ground truth by construction (identical / orthogonal / pure / commuting pairs),
  * metamorphic relations stated in the property (symmetry, unitary invariance, triangle inequality,
    Fuchs-van de Graaf, sub-fidelity <= F^2, Matsumoto <= F).
Reading of the statement (DESIGN 5/C13): toqito's `fidelity` is the root fidelity F = Tr sqrt(sqrt(rho) sigma sqrt(rho));
`bures_angle = arccos sqrt(F)` as documented; the sub-fidelity's upper extreme 1 is asserted on identical pure or qubit
states only.
"""
from __future__ import annotations

import itertools

import numpy as np

ID = "C13"
TITLE = "state distances and fidelities equal their definitions and inequalities"
LEVEL = "exploration"
BUDGET = {"quick": 80, "thorough": 900}
ENGINES = ["E4-rtc"]
TECHNIQUE = "run-time-checked contracts on the real functions over a bounded domain (bounded stand-in)"
LEVEL_TEXT = (
    "Bounded exploration only; nothing is proved. The real functions fidelity, trace_distance, hilbert_schmidt, hilbert_schmidt_inner_product, helstrom_holevo, "
    "bures_distance, bures_angle, sub_fidelity, matsumoto_fidelity, trace_norm and state_metrics.fidelity_of_separability are called on generated density operators "
    "(dimension 2..6, every rank, real and complex; identical, orthogonal, diagonal, commuting, pure, mixed and nearly equal pairs; triples for the triangle inequality) "
    "and each return value is compared with the documented defining formula computed independently (Hermitian eigendecompositions, singular values, Frobenius sums), "
    "with the values forced by construction (identical / orthogonal / pure pairs), and with the relations of the statement (symmetry, unitary invariance, metric axioms, "
    "1-F <= T <= sqrt(1-F^2), sub-fidelity <= F^2, Matsumoto <= F, rejection of non-density inputs, fidelity of separability 1 on pure product states at levels 1..3)."
)
RULE = (
    "Deterministic grid: every (dimension d in 2..6, rank pair, real/complex) for the definition clauses, every d and rank for identical / orthogonal / pure / commuting "
    "constructions, every function x every kind of non-density input x both argument positions for the rejection clause, local dimensions (2,2),(2,3),(3,2),(3,3),(2,4),(4,2) "
    "x levels for the fidelity of separability; VERIF_SEED adds random instances of every class. Non-trivial = the pair is not the 1x1 case and (for definition clauses) "
    "the two states differ; distinct = distinct (clause, parameters)."
)
EXPLANATION = LEVEL_TEXT
TRUSTED = [
    "numpy.linalg.eigh / svd / eigvalsh are correct to ~1e-12 on the 2..6 dimensional Hermitian matrices used by the oracles",
    "tolerances are part of the contract: 1e-7 for full-rank inputs, 1e-6 when an input is singular (scipy sqrtm of a singular matrix is accurate only to about sqrt(machine eps) per null direction), 1e-5 for the cvxopt-backed fidelity of separability",
    "the documented formula is the contract: root fidelity for `fidelity`, arccos(sqrt(F)) for `bures_angle`, 1/2 + T/2 for `helstrom_holevo`, Tr((rho-sigma)^2) for `hilbert_schmidt`",
    "orderings a <= b are checked as a <= b + tol; T <= sqrt(1-F^2) is checked in the squared form T^2 + F^2 <= 1 + 1e-6 so that the sqrt does not amplify rounding near F = 1",
    "Matsumoto fidelity clauses use states with smallest eigenvalue >= 0.15/d (full rank by a margin), as the statement restricts them to full-rank states",
    "density matrices are sampled as G G^dagger / tr (Ginibre), Haar unitaries by QR: a bounded sample of the quantifier, not the whole of it",
]
ASSUMPTIONS = TRUSTED

TOL_FULL = 1e-7
TOL_SING = 1e-6
TOL_FOS = 1e-5

PAIR_FUNCS = ["fidelity", "trace_distance", "hilbert_schmidt", "helstrom_holevo", "bures_distance", "bures_angle", "sub_fidelity", "matsumoto_fidelity"]


# =============================================================================================
# executor side
# =============================================================================================
def _toq(name):
    import toqito.state_metrics as sm

    return getattr(sm, name)


def _herm(a):
    return (a + a.conj().T) / 2


def _ginibre(rng, d, r, cplx):
    g = rng.standard_normal((d, r))
    if cplx:
        g = g + 1j * rng.standard_normal((d, r))
    return g


def _haar(rng, d, cplx=True):
    g = _ginibre(rng, d, d, cplx)
    q, r = np.linalg.qr(g)
    ph = np.diag(r) / np.abs(np.diag(r))
    return q * ph


def _dm(rng, d, r, cplx):
    g = _ginibre(rng, d, r, cplx)
    m = _herm(g @ g.conj().T)
    return m / np.trace(m).real


def _fullrank(rng, d, cplx, p=0.15):
    return _herm((1 - p) * _dm(rng, d, d + 1, cplx) + p * np.eye(d) / d)


def _spectrum(rng, r):
    w = rng.random(r) + 0.1
    return w / w.sum()


def _from_basis(u, w, cols):
    v = u[:, cols]
    return _herm((v * w) @ v.conj().T)


def _pair(p):
    """(rho, sigma, singular?) from JSON-able params"""
    d, kind, cplx = p["d"], p["kind"], p.get("field", "complex") == "complex"
    rng = np.random.default_rng([p.get("seed", 0), d, 17])
    r1, r2 = p.get("r1", d), p.get("r2", d)
    if kind == "mixed":
        a, b = _dm(rng, d, r1, cplx), _dm(rng, d, r2, cplx)
    elif kind == "pure":
        a, b = _dm(rng, d, 1, cplx), _dm(rng, d, 1, cplx)
        r1 = r2 = 1
    elif kind == "fullrank":
        a, b = _fullrank(rng, d, cplx), _fullrank(rng, d, cplx)
        r1 = r2 = d
    elif kind == "identical":
        a = _dm(rng, d, r1, cplx)
        b = a.copy()
        r2 = r1
    elif kind == "identical-fullrank":
        a = _fullrank(rng, d, cplx)
        b = a.copy()
        r1 = r2 = d
    elif kind == "orthogonal":
        u = _haar(rng, d, cplx)
        a = _from_basis(u, _spectrum(rng, r1), list(range(r1)))
        b = _from_basis(u, _spectrum(rng, r2), list(range(r1, r1 + r2)))
    elif kind == "diagonal":
        a = np.diag(np.concatenate([_spectrum(rng, r1), np.zeros(d - r1)]))
        b = np.diag(np.concatenate([np.zeros(d - r2), _spectrum(rng, r2)]))
        if cplx:
            a, b = a.astype(complex), b.astype(complex)
    elif kind == "commuting":
        u = _haar(rng, d, cplx)
        a = _from_basis(u, _spectrum(rng, r1), list(range(r1)))
        b = _from_basis(u, _spectrum(rng, r2), list(range(d - r2, d)))
    elif kind == "int-projector":
        # a basis projector typed in with integer entries (int64) against a complex full-rank state: two numpy dtypes in one call
        a = np.zeros((d, d), dtype=np.int64)
        a[0, 0] = 1
        b = _fullrank(rng, d, True)
        if p.get("swap"):
            a, b = b, a
        r1, r2 = (d, 1) if p.get("swap") else (1, d)
    elif kind == "near":
        a = _dm(rng, d, r1, cplx)
        eps = p.get("eps", 1e-3)
        b = _herm((1 - eps) * a + eps * _dm(rng, d, r2, cplx))
        r2 = max(r1, r2)
    elif kind == "near-fullrank":
        a = _fullrank(rng, d, cplx)
        eps = p.get("eps", 1e-3)
        b = _herm((1 - eps) * a + eps * _fullrank(rng, d, cplx))
        r1 = r2 = d
    else:
        raise ValueError(kind)
    return a, b, (r1 < d or r2 < d)


def _tol(singular):
    return TOL_SING if singular else TOL_FULL


def _psd_sqrt(a):
    w, v = np.linalg.eigh(_herm(a))
    w = np.clip(w, 0, None)
    return (v * np.sqrt(w)) @ v.conj().T


def _o_fidelity(a, b):
    return float(np.sum(np.linalg.svd(_psd_sqrt(a) @ _psd_sqrt(b), compute_uv=False)))


def _o_trace_distance(a, b):
    return float(0.5 * np.sum(np.abs(np.linalg.eigvalsh(_herm(a - b)))))


def _o_hs(a, b):
    x = a - b
    return float(np.sum(x.real**2 + x.imag**2))


def _o_subfid(a, b):
    ab = a @ b
    t = np.trace(ab).real
    t2 = np.trace(ab @ ab).real
    return float(t + np.sqrt(max(2 * (t * t - t2), 0.0)))


def _o_matsumoto(a, b):
    w, v = np.linalg.eigh(_herm(a))
    s = (v * np.sqrt(w)) @ v.conj().T
    si = (v / np.sqrt(w)) @ v.conj().T
    return float(np.trace(s @ _psd_sqrt(si @ b @ si) @ s).real)


def _oracle(fn, a, b):
    if fn == "fidelity":
        return _o_fidelity(a, b)
    if fn == "trace_distance":
        return _o_trace_distance(a, b)
    if fn == "hilbert_schmidt":
        return _o_hs(a, b)
    if fn == "helstrom_holevo":
        return 0.5 + 0.5 * _o_trace_distance(a, b)
    if fn == "bures_distance":
        return float(np.sqrt(max(2 * (1 - _o_fidelity(a, b)), 0.0)))
    if fn == "bures_angle":
        return float(np.arccos(np.sqrt(min(max(_o_fidelity(a, b), 0.0), 1.0))))
    if fn == "sub_fidelity":
        return _o_subfid(a, b)
    if fn == "matsumoto_fidelity":
        return _o_matsumoto(a, b)
    raise ValueError(fn)


def _call(fn, a, b):
    import warnings

    with warnings.catch_warnings():
        warnings.simplefilter("ignore")
        v = _toq(fn)(a, b)
    v = complex(v)
    return v


def _close(fn, got, exp, tol):
    """|got - exp| within the contract tolerance; the square-root-type quantities are compared through the quantity under the root
    (bures_distance^2 = 2(1-F), cos(bures_angle)^2 = F, and the sub-fidelity's root term), so that a rounding error of size tol
    in F near F = 1 is not amplified to sqrt(tol)."""
    if not np.isfinite(got.real) or not np.isfinite(got.imag):
        return False
    if abs(got.imag) > tol:
        return False
    g = got.real
    if fn == "bures_distance":
        return abs(g * g - exp * exp) <= 4 * tol and g >= -tol
    if fn == "bures_angle":
        return abs(np.cos(g) ** 2 - np.cos(exp) ** 2) <= 4 * tol and -tol <= g <= np.pi / 2 + tol
    return abs(g - exp) <= tol


def _fmt(v):
    if abs(v.imag) < 1e-15:
        return "%.10g" % v.real
    return "%.10g%+.3gj" % (v.real, v.imag)


def _make_def(fn):
    def clause(p):
        from vt.contract import Violation

        a, b, sing = _pair(p)
        got = _call(fn, a, b)
        exp = _oracle(fn, a, b)
        tol = _tol(sing)
        if fn == "sub_fidelity":
            ok = _subfid_close(got, a, b, tol)
        else:
            ok = _close(fn, got, exp, tol)
        if not ok:
            raise Violation("%s(rho, sigma) = %s, documented formula gives %.10g (d=%d, %s %s pair, ranks %s/%s, tol %.0e)" % (fn, _fmt(got), exp, p["d"], p.get("field", "complex"), p["kind"], p.get("r1", "-"), p.get("r2", "-"), tol))
        return {"got": got.real, "exp": exp}

    clause.__doc__ = "%s(rho, sigma) equals its documented defining formula, computed independently" % fn
    clause.function = fn
    return clause


def _subfid_close(got, a, b, tol):
    """sub-fidelity: E = t + sqrt(2 (t^2 - t2)); compare t-part and the quantity under the root separately"""
    if not (np.isfinite(got.real) and np.isfinite(got.imag)) or abs(got.imag) > tol:
        return False
    ab = a @ b
    t = np.trace(ab).real
    under = 2 * (t * t - np.trace(ab @ ab).real)
    root = got.real - t
    if root < -tol:
        return False
    return abs(root * root - max(under, 0.0)) <= 4 * tol


def _make_sym(fn):
    def clause(p):
        from vt.contract import Violation

        a, b, sing = _pair(p)
        g1, g2 = _call(fn, a, b), _call(fn, b, a)
        tol = 2 * _tol(sing)
        if not _rel_close(fn, g1, g2, tol):
            raise Violation("%s(rho, sigma) = %s but %s(sigma, rho) = %s (d=%d, %s %s pair)" % (fn, _fmt(g1), fn, _fmt(g2), p["d"], p.get("field", "complex"), p["kind"]))

    clause.__doc__ = "%s is symmetric in its arguments" % fn
    clause.function = fn
    return clause


def _rel_close(fn, g1, g2, tol):
    """two library values of the same quantity agree (root-type quantities compared through their squares)"""
    if not all(np.isfinite(x) for x in (g1.real, g1.imag, g2.real, g2.imag)):
        return False
    if fn in ("bures_distance",):
        return abs(g1.real**2 - g2.real**2) <= 4 * tol
    if fn == "bures_angle":
        return abs(np.cos(g1.real) ** 2 - np.cos(g2.real) ** 2) <= 4 * tol
    return abs(g1 - g2) <= tol


def _make_uinv(fn):
    def clause(p):
        from vt.contract import Violation

        a, b, sing = _pair(p)
        d = p["d"]
        rng = np.random.default_rng([p.get("seed", 0), d, 99])
        u = _haar(rng, d, p.get("ufield", "complex") == "complex")
        a2, b2 = _herm(u @ a @ u.conj().T), _herm(u @ b @ u.conj().T)
        g1, g2 = _call(fn, a, b), _call(fn, a2, b2)
        tol = 2 * _tol(sing)
        if not _rel_close(fn, g1, g2, tol):
            raise Violation("%s(rho, sigma) = %s but %s(U rho U*, U sigma U*) = %s for a %s unitary U (d=%d, %s %s pair)" % (fn, _fmt(g1), fn, _fmt(g2), p.get("ufield", "complex"), d, p.get("field", "complex"), p["kind"]))

    clause.__doc__ = "%s is invariant under conjugating both states with the same unitary" % fn
    clause.function = fn
    return clause


_IDENT_VALUE = {"fidelity": 1.0, "trace_distance": 0.0, "hilbert_schmidt": 0.0, "helstrom_holevo": 0.5, "bures_distance": 0.0, "bures_angle": 0.0, "sub_fidelity": 1.0, "matsumoto_fidelity": 1.0}


def _make_identical(fn):
    def clause(p):
        from vt.contract import Violation

        a, b, sing = _pair(p)
        got = _call(fn, a, b)
        exp = _IDENT_VALUE[fn]
        tol = _tol(sing)
        ok = np.isfinite(got.real) and abs(got.imag) <= tol
        if ok:
            if fn == "bures_distance":
                ok = abs(got.real) ** 2 <= 4 * tol
            elif fn == "bures_angle":
                ok = abs(1 - np.cos(got.real) ** 2) <= 4 * tol and abs(got.real) < 1
            elif fn == "sub_fidelity":
                ok = abs(got.real - exp) <= tol + np.sqrt(8 * tol)  # the root term sqrt(2(t^2 - t2)) vanishes here: allow sqrt(2*4tol)
            else:
                ok = abs(got.real - exp) <= tol
        if not ok:
            raise Violation("%s(rho, rho) = %s on identical states, extreme value is %g (d=%d, rank %s, %s)" % (fn, _fmt(got), exp, p["d"], p.get("r1", p["d"]), p.get("field", "complex")))

    clause.__doc__ = "%s takes its extreme value on identical states" % fn
    clause.function = fn
    return clause


def _make_orthogonal(fn):
    def clause(p):
        from vt.contract import Violation

        a, b, sing = _pair(p)
        got = _call(fn, a, b)
        if fn == "hilbert_schmidt":
            exp = float(np.trace(a @ a).real + np.trace(b @ b).real)  # = 2 for orthogonal pure states
        else:
            exp = {"fidelity": 0.0, "trace_distance": 1.0, "helstrom_holevo": 1.0, "bures_distance": np.sqrt(2.0), "bures_angle": np.pi / 2, "sub_fidelity": 0.0}[fn]
        tol = TOL_SING
        ok = np.isfinite(got.real) and abs(got.imag) <= tol
        if ok:
            if fn == "bures_angle":
                # cos(angle)^2 = F = 0: the documented arccos(sqrt(F)) turns an error e in F into sqrt(e) in the angle
                ok = np.cos(got.real) ** 2 <= 4 * tol
            elif fn == "sub_fidelity":
                ok = abs(got.real) <= tol + np.sqrt(8 * tol)
            else:
                ok = abs(got.real - exp) <= 4 * tol
        if not ok:
            raise Violation("%s(rho, sigma) = %s on states with orthogonal supports, extreme value is %.10g (d=%d, ranks %s/%s, %s, %s)" % (fn, _fmt(got), exp, p["d"], p.get("r1"), p.get("r2"), p.get("field", "complex"), p["kind"]))

    clause.__doc__ = "%s takes its extreme value on states with orthogonal supports" % fn
    clause.function = fn
    return clause


def _make_strict(fn):
    def clause(p):
        """only on states that differ and overlap by a margin (oracle trace distance in [1e-3, 1 - 1e-3], oracle fidelity >= 1e-2)"""
        from vt.contract import Undecided, Violation

        a, b, sing = _pair(p)
        t, f = _o_trace_distance(a, b), _o_fidelity(a, b)
        if t < 1e-3 or f < 1e-2 or t > 1 - 1e-3:
            raise Undecided("pair is not different/overlapping by the required margin (T=%.3g, F=%.3g)" % (t, f))
        got = _call(fn, a, b).real
        lo, hi = {"fidelity": (0.0, 1.0), "trace_distance": (0.0, 1.0), "hilbert_schmidt": (0.0, 2.0), "helstrom_holevo": (0.5, 1.0), "bures_distance": (0.0, np.sqrt(2.0)), "bures_angle": (0.0, np.pi / 2), "sub_fidelity": (0.0, 1.0), "matsumoto_fidelity": (-1.0, 1.0)}[fn]
        m = 1e-7
        if not (lo + m < got < hi - m):
            raise Violation("%s = %.10g attains an extreme value of [%g, %g] on states that are neither identical nor orthogonal (T=%.4f, F=%.4f; d=%d, %s %s)" % (fn, got, lo, hi, t, f, p["d"], p.get("field", "complex"), p["kind"]))

    clause.__doc__ = "%s takes its extreme values only on identical / orthogonal states" % fn
    clause.function = fn
    return clause


def _make_pure(fn):
    def clause(p):
        from vt.contract import Violation

        d, cplx = p["d"], p.get("field", "complex") == "complex"
        rng = np.random.default_rng([p.get("seed", 0), d, 5])
        x = _ginibre(rng, d, 1, cplx)[:, 0]
        y = _ginibre(rng, d, 1, cplx)[:, 0]
        x, y = x / np.linalg.norm(x), y / np.linalg.norm(y)
        ang = p.get("angle")
        if ang is not None:  # prescribed overlap cos(angle): y = cos x + sin x_perp
            z = y - x * np.vdot(x, y)
            z = z / np.linalg.norm(z)
            y = np.cos(ang) * x + np.sin(ang) * z
        a, b = _herm(np.outer(x, x.conj())), _herm(np.outer(y, y.conj()))
        ov = float(abs(np.vdot(x, y)))
        exp = {
            "fidelity": ov,
            "trace_distance": np.sqrt(max(1 - ov * ov, 0)),
            "hilbert_schmidt": 2 * (1 - ov * ov),
            "helstrom_holevo": 0.5 + 0.5 * np.sqrt(max(1 - ov * ov, 0)),
            "bures_distance": np.sqrt(max(2 * (1 - ov), 0)),
            "bures_angle": np.arccos(np.sqrt(min(ov, 1.0))),
            "sub_fidelity": ov * ov,
        }[fn]
        got = _call(fn, a, b)
        tol = TOL_SING
        if fn == "sub_fidelity":
            ok = np.isfinite(got.real) and abs(got.imag) <= tol and abs(got.real - exp) <= tol + np.sqrt(8 * tol)
        else:
            ok = _close(fn, got, float(exp), tol)
        if not ok:
            raise Violation("%s on pure states with |<psi|phi>| = %.10g returns %s, overlap formula gives %.10g (d=%d, %s)" % (fn, ov, _fmt(got), exp, d, p.get("field", "complex")))

    clause.__doc__ = "%s reduces to the overlap formula on pure states" % fn
    clause.function = fn
    return clause


def _triple(p):
    d, cplx = p["d"], p.get("field", "complex") == "complex"
    rng = np.random.default_rng([p.get("seed", 0), d, 3])
    kind = p.get("kind", "mixed")
    out = []
    for i in range(3):
        if kind == "pure":
            out.append(_dm(rng, d, 1, cplx))
        elif kind == "mixed":
            out.append(_dm(rng, d, int(rng.integers(1, d + 1)), cplx))
        elif kind == "collinear":  # b on the segment between a and c: triangle inequality is tight
            out.append(_dm(rng, d, d, cplx))
        else:
            raise ValueError(kind)
    if kind == "collinear":
        out[1] = _herm(0.3 * out[0] + 0.7 * out[2])
        out = [out[0], out[1], out[2]]
    return out


def triangle(p):
    """trace_distance(a, c) <= trace_distance(a, b) + trace_distance(b, c)"""
    from vt.contract import Violation

    a, b, c = _triple(p)
    tac, tab, tbc = (_call("trace_distance", x, y).real for x, y in ((a, c), (a, b), (b, c)))
    if not tac <= tab + tbc + 3 * TOL_FULL:
        raise Violation("triangle inequality broken: T(a,c) = %.10g > T(a,b) + T(b,c) = %.10g + %.10g (d=%d, %s %s triple)" % (tac, tab, tbc, p["d"], p.get("field", "complex"), p.get("kind", "mixed")))


triangle.function = "trace_distance"


def nonneg(p):
    """trace_distance >= 0 and <= 1"""
    from vt.contract import Violation

    a, b, _ = _pair(p)
    t = _call("trace_distance", a, b).real
    if not (-TOL_FULL <= t <= 1 + TOL_FULL):
        raise Violation("trace_distance = %.10g outside [0, 1]" % t)


nonneg.function = "trace_distance"


def fvdg_lower(p):
    """1 - F <= T"""
    from vt.contract import Violation

    a, b, sing = _pair(p)
    f, t = _call("fidelity", a, b).real, _call("trace_distance", a, b).real
    if not 1 - f <= t + 2 * _tol(sing):
        raise Violation("1 - fidelity = %.10g > trace_distance = %.10g (d=%d, %s %s pair; oracle F=%.6f T=%.6f)" % (1 - f, t, p["d"], p.get("field", "complex"), p["kind"], _o_fidelity(a, b), _o_trace_distance(a, b)))


fvdg_lower.function = "fidelity/trace_distance"


def fvdg_upper(p):
    """T <= sqrt(1 - F^2), checked as T^2 + F^2 <= 1 + 1e-6"""
    from vt.contract import Violation

    a, b, sing = _pair(p)
    f, t = _call("fidelity", a, b).real, _call("trace_distance", a, b).real
    if not t * t + f * f <= 1 + 1e-6:
        raise Violation("trace_distance = %.10g > sqrt(1 - fidelity^2) = %.10g (d=%d, %s %s pair; oracle F=%.6f T=%.6f)" % (t, np.sqrt(max(1 - f * f, 0)), p["d"], p.get("field", "complex"), p["kind"], _o_fidelity(a, b), _o_trace_distance(a, b)))


fvdg_upper.function = "fidelity/trace_distance"


def subfid_le(p):
    """sub_fidelity <= fidelity^2"""
    from vt.contract import Violation

    a, b, sing = _pair(p)
    e, f = _call("sub_fidelity", a, b), _call("fidelity", a, b).real
    tol = 4 * _tol(sing) + (np.sqrt(8 * TOL_SING) if sing else 0.0)
    if not (np.isfinite(e.real) and e.real <= f * f + tol):
        raise Violation("sub_fidelity = %s > fidelity^2 = %.10g (d=%d, %s %s pair)" % (_fmt(e), f * f, p["d"], p.get("field", "complex"), p["kind"]))


subfid_le.function = "sub_fidelity/fidelity"


def matsumoto_le(p):
    """matsumoto_fidelity <= fidelity (full-rank states)"""
    from vt.contract import Violation

    a, b, sing = _pair(p)
    m, f = _call("matsumoto_fidelity", a, b).real, _call("fidelity", a, b).real
    if not (np.isfinite(m) and m <= f + 2 * TOL_FULL):
        raise Violation("matsumoto_fidelity = %.10g > fidelity = %.10g (d=%d, %s %s pair)" % (m, f, p["d"], p.get("field", "complex"), p["kind"]))


matsumoto_le.function = "matsumoto_fidelity/fidelity"


def _bad_input(kind, d, cplx, rng):
    a = _dm(rng, d, d, cplx)
    if kind == "trace":  # positive semidefinite, trace 1.3
        return 1.3 * a
    if kind == "negative":  # Hermitian, trace 1, smallest eigenvalue <= -0.1
        w, v = np.linalg.eigh(a)
        w = w.copy()
        w[0] = -0.1 - w[0]
        w[-1] += 1 - w.sum()
        return _herm((v * w) @ v.conj().T)
    if kind == "nonhermitian":  # trace 1, all eigenvalues real non-negative would not matter: rho + strictly upper-triangular part
        n = np.zeros((d, d), dtype=a.dtype)
        n[0, d - 1] = 0.3
        return a + n
    if kind == "integer":  # the kind of input used by the repository's tests
        return np.arange(1, d * d + 1).reshape(d, d)
    raise ValueError(kind)


def _make_reject(fn):
    def clause(p):
        from vt.contract import Violation

        d, cplx = p["d"], p.get("field", "complex") == "complex"
        rng = np.random.default_rng([p.get("seed", 0), d, 11])
        good = _dm(rng, d, d, cplx)
        bad = _bad_input(p["bad"], d, cplx, rng)
        args = {"first": (bad, good), "second": (good, bad), "both": (bad, bad.copy())}[p["pos"]]
        import warnings

        try:
            with warnings.catch_warnings():
                warnings.simplefilter("ignore")
                v = _toq(fn)(*args)
        except ValueError:
            return
        raise Violation("%s accepted a non-density input (%s, position %s, d=%d) and returned %r" % (fn, p["bad"], p["pos"], d, v))

    clause.__doc__ = "%s rejects (ValueError) inputs that are not density operators" % fn
    clause.function = fn
    return clause


def _make_reject_shape(fn):
    def clause(p):
        from vt.contract import Violation

        rng = np.random.default_rng(p.get("seed", 0))
        a, b = _dm(rng, p["d1"], p["d1"], True), _dm(rng, p["d2"], p["d2"], True)
        try:
            v = _toq(fn)(a, b)
        except ValueError:
            return
        raise Violation("%s accepted density operators of different dimensions %d and %d and returned %r" % (fn, p["d1"], p["d2"], v))

    clause.__doc__ = "%s rejects (ValueError) pairs of different dimension" % fn
    clause.function = fn
    return clause


def trace_norm_def(p):
    """trace_norm(X) = sum of singular values, for general (also rectangular, non-Hermitian) X"""
    from toqito.matrix_props import trace_norm
    from vt.contract import Violation

    m, n, cplx = p["m"], p["n"], p.get("field", "complex") == "complex"
    rng = np.random.default_rng([p.get("seed", 0), m, n])
    kind = p.get("kind", "general")
    if kind == "general":
        x = _ginibre(rng, m, n, cplx)
        if p.get("rank"):
            x = _ginibre(rng, m, p["rank"], cplx) @ _ginibre(rng, p["rank"], n, cplx)
    elif kind == "hermitian-difference":
        x = _dm(rng, m, m, cplx) - _dm(rng, m, m, cplx)
    elif kind == "density":
        x = _dm(rng, m, p.get("rank", m), cplx)
    else:
        raise ValueError(kind)
    got = float(trace_norm(x))
    if x.shape[0] == x.shape[1]:
        # independent route: sqrt of the eigenvalues of X* X
        exp = float(np.sum(np.sqrt(np.clip(np.linalg.eigvalsh(_herm(x.conj().T @ x)), 0, None))))
        tol = 1e-6
    else:
        s = np.linalg.eigvalsh(_herm(x.conj().T @ x) if n <= m else _herm(x @ x.conj().T))
        exp = float(np.sum(np.sqrt(np.clip(s, 0, None))))
        tol = 1e-6
    if kind == "density":
        exp, tol = 1.0, TOL_FULL
    if not abs(got - exp) <= tol * max(1.0, exp):
        raise Violation("trace_norm of a %dx%d %s %s matrix = %.10g, sum of singular values = %.10g" % (m, n, p.get("field", "complex"), kind, got, exp))
    # absolute homogeneity and unitary invariance
    c = complex(rng.standard_normal(), rng.standard_normal() if cplx else 0.0)
    g2 = float(trace_norm(c * x))
    if not abs(g2 - abs(c) * exp) <= tol * max(1.0, abs(c) * exp):
        raise Violation("trace_norm(c X) = %.10g, |c| ||X||_1 = %.10g" % (g2, abs(c) * exp))
    u, v = _haar(rng, m, cplx), _haar(rng, n, cplx)
    g3 = float(trace_norm(u @ x @ v))
    if not abs(g3 - exp) <= tol * max(1.0, exp):
        raise Violation("trace_norm(U X V) = %.10g, ||X||_1 = %.10g" % (g3, exp))


trace_norm_def.function = "trace_norm"


def hs_inner_def(p):
    """hilbert_schmidt_inner_product(A, B) = Tr(A* B) = sum_ij conj(a_ij) b_ij; conjugate-symmetric; ||A||_2^2 on the diagonal"""
    from toqito.state_metrics import hilbert_schmidt_inner_product
    from vt.contract import Violation

    m, n, cplx = p["m"], p["n"], p.get("field", "complex") == "complex"
    rng = np.random.default_rng([p.get("seed", 0), m, n, 1])
    a, b = _ginibre(rng, m, n, cplx), _ginibre(rng, m, n, cplx)
    got = complex(hilbert_schmidt_inner_product(a, b))
    exp = complex(sum(np.conj(a[i, j]) * b[i, j] for i in range(m) for j in range(n)))
    if not abs(got - exp) <= 1e-9 * max(1.0, abs(exp)):
        raise Violation("hilbert_schmidt_inner_product(A, B) = %s, Tr(A* B) = %s (%dx%d %s)" % (got, exp, m, n, p.get("field", "complex")))
    back = complex(hilbert_schmidt_inner_product(b, a))
    if not abs(back - np.conj(exp)) <= 1e-9 * max(1.0, abs(exp)):
        raise Violation("hilbert_schmidt_inner_product(B, A) = %s is not the conjugate of (A|B) = %s" % (back, exp))


hs_inner_def.function = "hilbert_schmidt_inner_product"


def _product_ket(rng, dims, cplx):
    v = np.ones(1)
    for d in dims:
        x = _ginibre(rng, d, 1, cplx)[:, 0]
        v = np.kron(v, x / np.linalg.norm(x))
    return v


def fos_product(p):
    """state_metrics.fidelity_of_separability(pure product state, [dA, dB], k) = 1"""
    from toqito.state_metrics import fidelity_of_separability
    from vt.contract import Undecided, Violation

    dims, k, cplx = list(p["dims"]), p["k"], p.get("field", "complex") == "complex"
    rng = np.random.default_rng([p.get("seed", 0)] + dims)
    if p.get("basis"):
        v = np.zeros(int(np.prod(dims)))
        v[p.get("index", 0)] = 1.0
    else:
        v = _product_ket(rng, dims, cplx)
    rho = _herm(np.outer(v, v.conj()))
    val = fidelity_of_separability(rho, dims, k=k)
    if val is None or not np.isfinite(val):
        raise Undecided("solver returned %r" % (val,))
    if not abs(val - 1) <= TOL_FOS:
        raise Violation("fidelity_of_separability of a pure product state on %s at level k=%d is %.8f, not 1" % (dims, k, val))
    return {"value": float(val)}


fos_product.function = "state_metrics.fidelity_of_separability"
fos_product.limit = 115


def fos_reject(p):
    """mixed states and non-density inputs are rejected (ValueError)"""
    from toqito.state_metrics import fidelity_of_separability
    from vt.contract import Violation

    dims, cplx = list(p["dims"]), p.get("field", "complex") == "complex"
    n = int(np.prod(dims))
    rng = np.random.default_rng([p.get("seed", 0)] + dims + [7])
    what = p["what"]
    if what == "mixed-product":  # separable but mixed: rank-2 mixture of product states
        v, w = _product_ket(rng, dims, cplx), _product_ket(rng, dims, cplx)
        rho = _herm(0.6 * np.outer(v, v.conj()) + 0.4 * np.outer(w, w.conj()))
    elif what == "maximally-mixed":
        rho = np.eye(n) / n
    elif what == "trace":
        v = _product_ket(rng, dims, cplx)
        rho = 1.2 * _herm(np.outer(v, v.conj()))
    elif what == "negative":
        v, w = _product_ket(rng, dims, cplx), _product_ket(rng, dims, cplx)
        rho = _herm(1.2 * np.outer(v, v.conj()) - 0.2 * np.outer(w, w.conj()))
    elif what == "nonhermitian":
        v = _product_ket(rng, dims, cplx)
        rho = np.outer(v, v.conj()).astype(complex if cplx else float)
        rho[0, n - 1] += 0.3
    else:
        raise ValueError(what)
    try:
        val = fidelity_of_separability(rho, dims, k=p.get("k", 1))
    except ValueError:
        return
    raise Violation("fidelity_of_separability accepted a %s input on %s and returned %r" % (what, dims, val))


fos_reject.function = "state_metrics.fidelity_of_separability"
fos_reject.limit = 60


CLAUSES = {}
for _fn in PAIR_FUNCS:
    CLAUSES[_fn + ".def"] = _make_def(_fn)
    CLAUSES[_fn + ".symmetric"] = _make_sym(_fn)
    CLAUSES[_fn + ".unitary_invariant"] = _make_uinv(_fn)
    CLAUSES[_fn + ".identical"] = _make_identical(_fn)
    CLAUSES[_fn + ".strict"] = _make_strict(_fn)
    CLAUSES[_fn + ".rejects_nondensity"] = _make_reject(_fn)
    CLAUSES[_fn + ".rejects_shape_mismatch"] = _make_reject_shape(_fn)
    if _fn != "matsumoto_fidelity":
        CLAUSES[_fn + ".orthogonal"] = _make_orthogonal(_fn)
        CLAUSES[_fn + ".pure_overlap"] = _make_pure(_fn)
def cvx_branch(p):
    """fidelity / matsumoto_fidelity on density operators handed over as cvxpy expressions (the documented SDP branch, used when the
    function appears inside a larger cvxpy problem) return the value of the defining formula, up to the SDP solver's accuracy"""
    import cvxpy

    from vt.contract import Undecided, Violation

    fn = p["fn"]
    a, b, _ = _pair(p)
    A = cvxpy.bmat([[complex(x) for x in row] for row in a])
    B = cvxpy.bmat([[complex(x) for x in row] for row in b])
    try:
        got = complex(_toq(fn)(A, B)).real
    except cvxpy.error.SolverError as e:
        raise Undecided("solver: %s" % str(e)[:100])
    if got is None or not np.isfinite(got):
        raise Undecided("the SDP solver returned no value")
    exp = _oracle(fn, a, b)
    tol = 2e-3
    if abs(got - exp) > tol:
        raise Violation("%s on cvxpy.bmat operands = %.8g, defining formula = %.8g (d=%d, %s %s pair, |diff| %.2e > %.0e)" % (fn, got, exp, p["d"], p.get("field", "complex"), p["kind"], abs(got - exp), tol))
    return {"diff": abs(got - exp)}


cvx_branch.function = "fidelity/matsumoto_fidelity"
cvx_branch.limit = 120

CLAUSES.update(
    {
        "cvx_branch.def": cvx_branch,
        "trace_distance.triangle": triangle,
        "trace_distance.range": nonneg,
        "fvdg.lower": fvdg_lower,
        "fvdg.upper": fvdg_upper,
        "sub_fidelity.le_F2": subfid_le,
        "matsumoto_fidelity.le_F": matsumoto_le,
        "trace_norm.def": trace_norm_def,
        "hs_inner.def": hs_inner_def,
        "fos.product_is_1": fos_product,
        "fos.rejects": fos_reject,
    }
)


def _cls(kind, r1, r2, d):
    """input-class label: the kind of pair plus the rank pattern (both pure / exactly one pure / rank-deficient / full rank)"""
    if r1 == 1 and r2 == 1:
        rk = "pure"
    elif r1 == 1 or r2 == 1:
        rk = "onepure"
    elif r1 < d or r2 < d:
        rk = "lowrank"
    else:
        rk = "fullrank"
    if kind in ("mixed", "pure", "fullrank"):
        return rk + "-pair"
    return {"orthogonal": "orthogonal", "diagonal": "diagonal", "commuting": "commuting", "near": "nearly-equal", "near-fullrank": "nearly-equal"}[kind] + "-" + rk + "-pair"


def _angle_cls(ang):
    if ang is None:
        return "pure-pair"
    if ang == 0.0:
        return "pure-identical-pair"
    if ang < 1e-3:
        return "pure-nearly-parallel-pair"
    if ang == np.pi / 2:
        return "pure-orthogonal-pair"
    if ang > np.pi / 2 - 1e-3:
        return "pure-nearly-orthogonal-pair"
    return "pure-pair"


def cases(tier, seed):
    thorough = tier == "thorough"
    out = []

    def add(clause, params, ic, nontrivial=True, **kw):
        # input class "<function>/<real|complex>/<kind of pair>": the field comes second so that a known finding that only concerns
        # real (or complex) inputs can be keyed by the prefix "<function>/real/*"
        parts = ic.split("/")
        if parts[-1] in ("real", "complex") and len(parts) >= 3:
            ic = "/".join([parts[0], parts[-1]] + parts[1:-1])
        out.append(dict(clause=clause, params=params, input_class=ic, nontrivial=nontrivial, **kw))

    fields = ("real", "complex")
    dims = (2, 3, 4, 5, 6)
    seeds = [seed + i for i in range(4 if thorough else 1)]

    def fns_for(kind):
        # Matsumoto fidelity: full-rank states only (statement); everything else on every class
        return PAIR_FUNCS if kind in ("fullrank", "identical-fullrank") else [f for f in PAIR_FUNCS if f != "matsumoto_fidelity"]

    # ---- definition clauses: every rank pair (grid), every dimension, both fields
    for d in dims:
        for fld in fields:
            for s in seeds:
                rank_pairs = list(itertools.product(range(1, d + 1), repeat=2))
                if not thorough and d >= 5:
                    rank_pairs = [(r1, r2) for r1, r2 in rank_pairs if r1 in (1, 2, d) and r2 in (1, d - 1, d)]
                for r1, r2 in rank_pairs:
                    kind = "pure" if (r1, r2) == (1, 1) else "mixed"
                    cls = _cls(kind, r1, r2, d)
                    for fn in fns_for(kind):
                        add(fn + ".def", dict(d=d, kind=kind, field=fld, r1=r1, r2=r2, seed=s), "%s/%s/%s" % (fn, cls, fld))
                for fn in fns_for("fullrank"):
                    add(fn + ".def", dict(d=d, kind="fullrank", field=fld, seed=s), "%s/fullrank-pair/%s" % (fn, fld))
                for r1, r2 in ((1, 1), (1, d - 1), (max(1, d // 2), d - max(1, d // 2))):
                    for fn in fns_for("orthogonal"):
                        add(fn + ".def", dict(d=d, kind="orthogonal", field=fld, r1=r1, r2=r2, seed=s), "%s/%s/%s" % (fn, _cls("orthogonal", r1, r2, d), fld))
                        add(fn + ".orthogonal", dict(d=d, kind="orthogonal", field=fld, r1=r1, r2=r2, seed=s), "%s/%s/%s" % (fn, _cls("orthogonal", r1, r2, d), fld))
                    # orthogonal and diagonal in the computational basis
                    for fn in fns_for("diagonal"):
                        add(fn + ".orthogonal", dict(d=d, kind="diagonal", field=fld, r1=r1, r2=r2, seed=s), "%s/orthogonal-%s/%s" % (fn, _cls("diagonal", r1, r2, d), fld))
                for r1, r2 in ((d, d), (d - 1, d), (max(1, d - 1), max(2, d - 1))):
                    for kind in ("diagonal", "commuting"):
                        for fn in fns_for(kind):
                            add(fn + ".def", dict(d=d, kind=kind, field=fld, r1=r1, r2=r2, seed=s), "%s/%s/%s" % (fn, _cls(kind, r1, r2, d), fld))
                for eps in (1e-2, 1e-5):
                    for r in (d, max(1, d - 1)):
                        for fn in fns_for("near"):
                            add(fn + ".def", dict(d=d, kind="near", field=fld, r1=r, r2=r, eps=eps, seed=s), "%s/%s/%s" % (fn, _cls("near", r, r, d), fld))
                    add("matsumoto_fidelity.def", dict(d=d, kind="near-fullrank", field=fld, eps=eps, seed=s), "matsumoto_fidelity/nearly-equal-fullrank-pair/%s" % fld)
                # identical states, every rank
                for r in range(1, d + 1):
                    for fn in fns_for("identical"):
                        if fn == "sub_fidelity" and not (r == 1 or d == 2):
                            continue  # E(rho, rho) < 1 for mixed states of dimension >= 3 (mathematics)
                        add(fn + ".identical", dict(d=d, kind="identical", field=fld, r1=r, seed=s), "%s/identical-%s/%s" % (fn, "pure" if r == 1 else ("fullrank" if r == d else "lowrank"), fld))
                add("matsumoto_fidelity.identical", dict(d=d, kind="identical-fullrank", field=fld, seed=s), "matsumoto_fidelity/identical-fullrank/%s" % fld)
                # pure-state overlap forms: random and prescribed overlaps (incl. nearly parallel / nearly orthogonal)
                for ang in (None, 0.0, 1e-4, 0.3, np.pi / 4, 1.2, np.pi / 2 - 1e-4, np.pi / 2):
                    for fn in fns_for("pure"):
                        add(fn + ".pure_overlap", dict(d=d, field=fld, seed=s, angle=ang), "%s/%s/%s" % (fn, _angle_cls(ang), fld))
                # symmetry, unitary invariance, strictness, relations
                for kind, r1, r2 in (("mixed", d, d), ("mixed", 1, d), ("mixed", max(1, d - 1), 2), ("pure", 1, 1), ("fullrank", d, d), ("commuting", d, d - 1), ("near", d, d)):
                    cls = _cls(kind, r1, r2, d)
                    prm = dict(d=d, kind=kind, field=fld, r1=r1, r2=r2, seed=s + 100)
                    for fn in fns_for(kind):
                        add(fn + ".symmetric", prm, "%s/%s/%s" % (fn, cls, fld))
                        for uf in ("complex",) + (("real",) if fld == "real" else ()):
                            add(fn + ".unitary_invariant", dict(prm, ufield=uf), "%s/%s/%s" % (fn, cls, fld))
                        if kind != "near":
                            add(fn + ".strict", prm, "%s/%s/%s" % (fn, cls, fld))
                    add("trace_distance.range", prm, "trace_distance/%s/%s" % (cls, fld))
                    add("fvdg.lower", prm, "fvdg/%s/%s" % (cls, fld))
                    add("fvdg.upper", prm, "fvdg/%s/%s" % (cls, fld))
                    add("sub_fidelity.le_F2", prm, "sub_fidelity/%s/%s" % (cls, fld))
                    if kind == "fullrank":
                        add("matsumoto_fidelity.le_F", prm, "matsumoto_fidelity/fullrank-pair/%s" % fld)
                add("matsumoto_fidelity.le_F", dict(d=d, kind="commuting", field=fld, r1=d, r2=d, seed=s), "matsumoto_fidelity/commuting-fullrank-pair/%s" % fld)
                add("matsumoto_fidelity.def", dict(d=d, kind="commuting", field=fld, r1=d, r2=d, seed=s), "matsumoto_fidelity/commuting-fullrank-pair/%s" % fld)
                for kind in ("mixed", "pure", "collinear"):
                    for t in range(3 if not thorough else 6):
                        add("trace_distance.triangle", dict(d=d, kind=kind, field=fld, seed=s + 10 * t), "trace_distance/%s-triple/%s" % (kind, fld))
    # ---- seeded random extras
    rng = np.random.default_rng(seed + 12345)
    for i in range(600 if thorough else 60):
        d = int(rng.integers(2, 7))
        fld = fields[int(rng.integers(2))]
        r1, r2 = int(rng.integers(1, d + 1)), int(rng.integers(1, d + 1))
        s = int(rng.integers(1 << 30))
        cls = _cls("mixed", r1, r2, d)
        prm = dict(d=d, kind="pure" if cls == "pure-pair" else "mixed", field=fld, r1=r1, r2=r2, seed=s)
        for fn in fns_for("mixed"):
            add(fn + ".def", prm, "%s/%s/%s" % (fn, cls, fld))
        add("fvdg.lower", prm, "fvdg/%s/%s" % (cls, fld))
        add("fvdg.upper", prm, "fvdg/%s/%s" % (cls, fld))
        add("sub_fidelity.le_F2", prm, "sub_fidelity/%s/%s" % (cls, fld))
        prm2 = dict(d=d, kind="fullrank", field=fld, seed=s)
        add("matsumoto_fidelity.def", prm2, "matsumoto_fidelity/fullrank-pair/%s" % fld)
        add("matsumoto_fidelity.le_F", prm2, "matsumoto_fidelity/fullrank-pair/%s" % fld)
        add("trace_distance.triangle", dict(d=d, kind="mixed", field=fld, seed=s), "trace_distance/mixed-triple/%s" % fld)
    # ---- an integer-typed projector against a complex state (mixed numpy dtypes in one call)
    for fn in PAIR_FUNCS:
        if fn == "matsumoto_fidelity":
            continue
        for d in (2, 3):
            for sw in (False, True):
                add(fn + ".def", dict(d=d, kind="int-projector", field="complex", swap=sw, seed=seed + d), "%s/int-projector-vs-complex/complex" % fn)
                add(fn + ".symmetric", dict(d=d, kind="int-projector", field="complex", swap=sw, seed=seed + d), "%s/int-projector-vs-complex/complex" % fn)
    # ---- the SDP branch taken for cvxpy operands (non-commuting full-rank pairs, real and complex)
    for fn in ("fidelity", "matsumoto_fidelity"):
        for d in (2, 3) if not thorough else (2, 3, 4):
            for fld in fields:
                for s in range(2 if not thorough else 4):
                    add("cvx_branch.def", dict(fn=fn, d=d, kind="fullrank", field=fld, seed=seed + s), "%s/cvxpy-operands/%s" % (fn, fld), function=fn)
    # ---- rejection of non-density inputs: every function x kind x position (d = 2, 3)
    for fn in PAIR_FUNCS:
        for d in (2, 3) if not thorough else (2, 3, 4, 5):
            for bad in ("trace", "negative", "nonhermitian", "integer"):
                for pos in ("first", "second", "both"):
                    if bad == "integer" and pos != "both":
                        continue
                    for fld in fields:
                        if bad == "integer" and fld == "complex":
                            continue
                        add(fn + ".rejects_nondensity", dict(d=d, bad=bad, pos=pos, field=fld, seed=seed), "%s/non-density-%s" % (fn, bad))
        for d1, d2 in ((2, 3), (3, 2), (2, 4)):
            add(fn + ".rejects_shape_mismatch", dict(d1=d1, d2=d2, seed=seed), "%s/shape-mismatch" % fn)
    # ---- trace norm and Hilbert-Schmidt inner product
    for m, n in itertools.product((1, 2, 3, 4, 6), repeat=2):
        for fld in fields:
            add("trace_norm.def", dict(m=m, n=n, field=fld, seed=seed), "trace_norm/general-%s" % ("square" if m == n else "rectangular"), (m, n) != (1, 1))
            add("hs_inner.def", dict(m=m, n=n, field=fld, seed=seed), "hs_inner/general", (m, n) != (1, 1))
            if m == n and m > 1:
                add("trace_norm.def", dict(m=m, n=n, field=fld, seed=seed, kind="hermitian-difference"), "trace_norm/hermitian-difference")
                add("trace_norm.def", dict(m=m, n=n, field=fld, seed=seed, kind="density", rank=max(1, m - 1)), "trace_norm/density")
                add("trace_norm.def", dict(m=m, n=n, field=fld, seed=seed, kind="general", rank=1), "trace_norm/rank-deficient")
    # ---- fidelity of separability (picos/cvxopt SDP; sampled sparingly)
    fos_grid = [((2, 2), 1), ((2, 2), 2), ((2, 2), 3), ((2, 3), 1), ((2, 3), 2), ((3, 2), 1), ((3, 3), 1), ((2, 4), 1), ((4, 2), 1)]
    if thorough:
        fos_grid += [((3, 2), 2), ((2, 4), 2), ((4, 2), 2), ((3, 3), 2), ((2, 5), 1), ((5, 2), 1), ((3, 4), 1), ((4, 3), 1)]
    for dm, k in fos_grid:
        shape_cls = "%dx%d" % dm
        flds = fields if (thorough or k == 1) else ("complex",)
        for fld in flds:
            add("fos.product_is_1", dict(dims=list(dm), k=k, field=fld, seed=seed), "fos/pure-product/%s/k=%d" % (shape_cls, k))
        if k == 1:
            add("fos.product_is_1", dict(dims=list(dm), k=k, basis=True, index=0, seed=seed), "fos/pure-product-basis/%s/k=%d" % (shape_cls, k))
    for dm in ((2, 2), (2, 3), (3, 3)):
        for what in ("mixed-product", "maximally-mixed", "trace", "negative", "nonhermitian"):
            add("fos.rejects", dict(dims=list(dm), what=what, field="complex", seed=seed), "fos/reject-%s/%dx%d" % ((what,) + dm))
    return out


# =============================================================================================
# deductive part (prover side) and its replay clauses
# =============================================================================================
from props.C13_prove import EXTRA_CLAUSES as _EXTRA  # noqa: E402
from props.C13_prove import prove  # noqa: E402,F401

CLAUSES.update(_EXTRA)
LEVEL = "other"
ENGINES = ["E1-pyvc", "E3-E4-rtc"]
LEVEL_TEXT = 'Mixed. Proved (E1-term, over uninterpreted library operations and callee contracts): trace_norm, trace_distance, helstrom_holevo, hilbert_schmidt, bures_distance, bures_angle, sub_fidelity, fidelity and the Hilbert-Schmidt inner product compute their documented formulas (machine arithmetic treated as mathematical). Everything the formulas are supposed to satisfy (agreement with independently computed definitions, symmetry, invariance, extreme values, metric axioms, inequalities, rejection of non-density inputs, fidelity of separability) is a bounded run-time contract check.'
EXPLANATION = LEVEL_TEXT
TECHNIQUE = "formula contracts over uninterpreted library operations, VCs from the real AST discharged by z3 (E1-term) + bounded run-time-checked contracts on the real functions"


# =============================================================================================
# frame coverage shared by all properties (E2 obligations for every public function of the anchor files + run-time frame cases)
# =============================================================================================
from props import frame_all as _fa  # noqa: E402
from props.frame_common import frame_generic as _fg, frame_object as _fo  # noqa: E402

CLAUSES.setdefault("frame.generic", _fg)
CLAUSES.setdefault("frame.object", _fo)
_cases_before_frames = cases
_prove_before_frames = globals().get("prove")


def cases(tier, seed):  # noqa: F811
    return _cases_before_frames(tier, seed) + _fa.frame_cases(ID, seed)


def prove(tier, seed):  # noqa: F811
    from vt.pyvc.termproofs import merge

    b = _fa.prove_frames(ID, lambda s: _fa.frame_cases(ID, s))(tier, seed)
    if _prove_before_frames is None:
        return b
    return merge(_prove_before_frames(tier, seed), b)

if LEVEL == "exploration":
    LEVEL = "other"
LEVEL_TEXT = LEVEL_TEXT + (" Additionally proved (E2, taint analysis of the real AST): every public function and method in this property's anchor files writes through "
                           "no reference reachable from its arguments (or from self), so results do not depend on call order and callers' arrays / lists are not modified; "
                           "a run-time frame clause replays the same claim on concrete arguments.")
EXPLANATION = LEVEL_TEXT
if "E2-frame" not in globals().get("ENGINES", []):
    ENGINES = list(globals().get("ENGINES", ["E3-E4-rtc"])) + ["E2-frame"]
