"""C07 -- nonlocal game: classical value exact, values ordered, game object unchanged."""
from __future__ import annotations

import itertools

ID = "C07"
TITLE = "nonlocal game: classical value exact, values ordered, object unchanged"
LEVEL = "other"
BUDGET = {"quick": 100, "thorough": 1200}
ENGINES = ["E1-pyvc", "E2-frame", "E3-E4-rtc"]
TECHNIQUE = "VCs from the real AST (z3): update_odometer for lists of any length (loop invariant), strategy-space coverage and call-site preconditions of classical_value, digit decode of process_iteration; the product table built by the constructor for reps > 1 (loop invariants over the question odometers); frame clauses of the value methods by taint analysis; bounded run-time contracts (brute force, product games, BCS games, SDP value ordering)"
LEVEL_TEXT = (
    "Mixed. Proved (unbounded in answer counts / list length): update_odometer is the mixed-radix successor and respects its frame; classical_value visits "
    "every answer function of the enumerated player (num_iterations >= B**Y) and calls process_iteration with matching sizes, for every question-count pair "
    "(X,Y) in 1..3 (enumerated exponents) and all answer counts; process_iteration reads exactly the base-B digits of i (Y<=4 unrolled, all B, i); the four value "
    "methods write through no reference reachable from self; NonlocalGame(prob, V, reps) for reps = 2, 3 and all answer / question counts stores tensor(prob, reps) and a new table "
    "whose block at questions (i, j) is tensor_k V[:, :, x_k, y_k] with (x_k), (y_k) the base-X / base-Y digits of i / j (the product game). Bounded (run-time contracts, never counted as proved): classical value == brute force over all "
    "strategy pairs on shapes <= 3, product-game and BCS constructions, the ordering classical, q_lb <= NPA_k <= NS <= 1 on random asymmetric games (SDP, tolerance), "
    "snapshot equality of the game object under every invocation order."
)
RULE = (
    "E1/E2 obligations as listed in coverage.obligations_by_kind. Bounded: random games from VERIF_SEED plus a deterministic grid over shapes (A,B,X,Y) in {1,2,3}^4 "
    "with at most 3^6 strategy pairs, 0/1 and fractional predicates, non-uniform distributions; non-trivial = not all answer/question counts equal to 1; distinct = distinct (clause, parameters)."
)
EXPLANATION = LEVEL_TEXT
TRUSTED = [
    "S-int (mathematical integers), S-alias (x[:] copies a list, is a view of an ndarray)",
    "classical_value is verified on a mechanical slice: arrays are tracked by shape only; the scaling loops and float arithmetic on contents are abstracted (their effect on values is covered by the bounded brute-force clause)",
    "question counts X, Y are enumerated (1..3) because exponents must be concrete for z3; answer counts are symbolic",
    "assumed numpy contracts: np.copy / np.transpose keep/permute shapes, np.zeros, divmod on non-negative ints, np.sum(np.amax(M, axis=0)) = sum over columns of the column maximum",
    "multiprocessing branch of classical_value (num_iterations > 1000) is matched syntactically against the serial branch, not executed",
    "SDP values (NPA, non-signalling, see-saw lower bound) are floating-point solver output: bounded checks with tolerance 5e-4 only",
    "frame analysis treats unknown library calls as non-mutating when they belong to numpy/cvxpy namespaces (listed in vt/frame.py); run-time snapshot check backs it",
]
ASSUMPTIONS = TRUSTED

TOL_SDP = 5e-4


def prove(tier, seed):
    import ast as _ast

    from contracts.nlgame import ClassicalValueContract, ProcessIterationContract
    from contracts.odometer import OdometerContract
    from vt import extract
    from vt.frame import Index, frame_obligations
    from vt.pyvc.intvc import Engine

    records = []
    src_od = extract.Source("toqito/helper/update_odometer.py")
    src_g = extract.Source("toqito/nonlocal_games/nonlocal_game.py")

    def run_all(so, sg, only=None):
        recs = []
        if only in (None, "update_odometer"):
            for kind in ("list", "ndarray"):
                e = Engine(so.function("update_odometer"), OdometerContract(kind), "update_odometer", "input kind=%s, any length" % kind)
                r = e.run()
                for x in r:
                    if x["status"] != "discharged":
                        x["replay"] = [dict(clause="odometer.successor", function="update_odometer", input_class="update_odometer/%s" % kind, params=dict(n=n, kind=kind)) for n in (0, 1, 2, 3)]
                recs += r
        if only in (None, "classical_value"):
            rng = (1, 2, 3)
            for X in rng:
                for Y in rng:
                    e = Engine(sg.function("NonlocalGame.classical_value"), ClassicalValueContract(X, Y), "classical_value", "questions X=%d Y=%d, all answer counts" % (X, Y))
                    r = e.run()
                    for x in r:
                        if x["status"] != "discharged":
                            shapes = []
                            m = x.get("model") or {}
                            for a in (1, 2, 3):
                                for b in (1, 2, 3):
                                    if a != b:
                                        shapes.append([a, b, X, Y])
                            x["replay"] = [dict(clause="cv.pool_branch", function="classical_value", input_class="classical_value/pool-branch/%s" % kd, params=dict(shape=sh, kind=kd, seed=1), inline=True) for sh, kd in (([3, 3, 7, 7], "tail"), ([2, 3, 11, 7], "tail"), ([3, 2, 7, 11], "head-high"))] + [dict(clause="cv.bruteforce_ge", function="classical_value", input_class="classical_value/shape", params=dict(shape=s, kind="01", seed=1)) for s in shapes if s[0] ** s[2] * s[1] ** s[3] <= 729] + [dict(clause="cv.bruteforce_le", function="classical_value", input_class="classical_value/shape", params=dict(shape=s, kind="01", seed=1)) for s in shapes if s[0] ** s[2] * s[1] ** s[3] <= 729]
                    recs += r
        if only in (None, "process_iteration"):
            for Y in (1, 2, 3, 4):
                e = Engine(sg.function("NonlocalGame.process_iteration"), ProcessIterationContract(Y), "process_iteration", "Y=%d digits, all bases and all i" % Y)
                r = e.run()
                for x in r:
                    if x["status"] != "discharged":
                        x["replay"] = [dict(clause="pi.value", function="process_iteration", input_class="process_iteration", params=dict(shape=[2, 3, 2, Y] if Y <= 3 else [2, 2, 2, Y], seed=1))]
                recs += r
        return recs

    records += run_all(src_od, src_g)
    # E2: frame clauses
    ix = Index()
    for m in ("classical_value", "quantum_value_lower_bound", "nonsignaling_value", "commuting_measurement_value_upper_bound"):
        r, S = frame_obligations(ix, "toqito/nonlocal_games/nonlocal_game.py", "NonlocalGame." + m, modifies=(), roots=["self"], label="%s modifies nothing reachable from self" % m)
        for x in r:
            if x["status"] != "discharged":
                x["replay"] = [dict(clause="frame.snapshot", function=m, input_class="frame/%s" % m, params=dict(order=[m], seed=1))]
        records += r
    for i, x in enumerate(records):
        x["_id"] = "c07.%d" % i
        x["clean"] = True
    # planted bugs
    muts = [
        ("update_odometer", src_od, None, "new_ind[j - 2] = new_ind[j - 2] + 1", "pass"),
        ("update_odometer", src_od, None, "if new_ind[j - 1] >= upper_lim[j - 1]:", "if new_ind[j - 1] > upper_lim[j - 1]:"),
        ("classical_value", None, src_g, "num_iterations = num_bob_outputs**num_bob_inputs", "num_iterations = num_alice_outputs**num_bob_inputs"),
        ("classical_value", None, src_g, "if num_alice_outputs**num_alice_inputs < num_bob_outputs**num_bob_inputs:", "if num_alice_outputs**num_alice_inputs > num_bob_outputs**num_bob_inputs:"),
        ("process_iteration", None, src_g, "for j in range(digits - 1, -1, -1):", "for j in range(digits - 1, 0, -1):"),
        ("process_iteration", None, src_g, "number, remainder = divmod(number, base)", "number, remainder = divmod(number, num_alice_outputs)"),
    ]
    if tier != "thorough":
        muts = [muts[0], muts[2], muts[4]]
    planted = {"tried": 0, "refuted": 0, "survivors": [], "anchors_missing": [], "detail": []}
    for fn, so, sg, old, new in muts:
        try:
            so2 = so.mutated(old, new) if so is not None else src_od
            sg2 = sg.mutated(old, new) if sg is not None else src_g
        except KeyError:
            planted["anchors_missing"].append("%s: %s" % (fn, old[:40]))
            continue
        r = run_all(so2, sg2, only=fn)
        bad = [x for x in r if x["status"] != "discharged"]
        planted["tried"] += 1
        if bad:
            planted["refuted"] += 1
            planted["detail"].append({"mutant": "%s: %s -> %s" % (fn, old[:50], new[:50]), "not_discharged": len(bad), "first": "%s: %s [%s]" % (bad[0]["kind"], bad[0]["text"][:90], bad[0]["status"])})
        else:
            planted["survivors"].append("%s: %s" % (fn, old[:50]))
    names = ["update_odometer", "classical_value", "process_iteration", "quantum_value_lower_bound", "nonsignaling_value", "commuting_measurement_value_upper_bound"]
    per = {n: sum(1 for x in records if x.get("claim") and x.get("function") == n) for n in names}
    reach = [x for x in records if x["kind"] == "reachability"]
    sc = {
        "nonzero_claim_obligations": {"ok": all(v > 0 for v in per.values()), "detail": per},
        "preconditions_satisfiable": {"ok": bool(reach) and all(x["status"] == "discharged" for x in reach), "detail": {"instances": len(reach)}},
        "planted_bugs_all_refuted": {"ok": planted["tried"] == planted["refuted"], "detail": planted},
    }
    functions = [src_od.info("update_odometer")] + [src_g.info("NonlocalGame." + m) for m in ("classical_value", "process_iteration", "quantum_value_lower_bound", "nonsignaling_value", "commuting_measurement_value_upper_bound")]
    return dict(records=records, functions=functions, instances=len(reach), planted=planted, selfchecks=sc)


# =============================================================================================
# executor side
# =============================================================================================
def _game(shape, kind, seed):
    import numpy as np

    A, B, X, Y = shape
    rng = np.random.default_rng(seed)
    prob = rng.random((X, Y)) + 0.05
    if kind.endswith("sparseprob") and X * Y > 1:
        prob[rng.integers(X), rng.integers(Y)] = 0.0
    prob /= prob.sum()
    if kind.startswith("01"):
        pred = (rng.random((A, B, X, Y)) < 0.45).astype(float)
        if kind.endswith("int"):  # a 0/1 predicate typed in as integers / booleans
            pred = pred.astype(np.int64)
        elif kind.endswith("bool"):
            pred = pred.astype(bool)
    else:
        pred = rng.random((A, B, X, Y))
    return prob, pred


def _brute(prob, pred):
    import numpy as np

    A, B, X, Y = pred.shape
    best = -np.inf
    for f in itertools.product(range(A), repeat=X):
        for g in itertools.product(range(B), repeat=Y):
            v = 0.0
            for x in range(X):
                for y in range(Y):
                    v += prob[x, y] * pred[f[x], g[y], x, y]
            best = max(best, v)
    return best


def cv_bruteforce_ge(p):
    """classical_value >= max over all pairs of deterministic answer functions (never an under-estimate)"""
    from toqito.nonlocal_games.nonlocal_game import NonlocalGame
    from vt.contract import Violation

    prob, pred = _game(p["shape"], p.get("kind", "01"), p.get("seed", 0))
    got = NonlocalGame(prob, pred).classical_value()
    exp = _brute(prob, pred)
    if got < exp - 1e-9:
        raise Violation("classical_value %.6f < brute-force maximum %.6f on shape (A,B,X,Y)=%s" % (got, exp, p["shape"]))


def cv_bruteforce_le(p):
    """classical_value <= max over all pairs (it is an achieved value)"""
    from toqito.nonlocal_games.nonlocal_game import NonlocalGame
    from vt.contract import Violation

    prob, pred = _game(p["shape"], p.get("kind", "01"), p.get("seed", 0))
    got = NonlocalGame(prob, pred).classical_value()
    exp = _brute(prob, pred)
    if got > exp + 1e-9:
        raise Violation("classical_value %.6f > brute-force maximum %.6f on shape (A,B,X,Y)=%s" % (got, exp, p["shape"]))


def cv_pool_branch(p):
    """games in which BOTH players have more than 1000 deterministic strategies (the branch of classical_value that uses a process pool):
    the value equals the exact optimum, computed independently as max over g of sum_x max_a sum_y pi(x,y) V(a, g(y), x, y)"""
    import numpy as np

    from toqito.nonlocal_games.nonlocal_game import NonlocalGame
    from vt.contract import Violation

    A, B, X, Y = p["shape"]
    rng = np.random.default_rng(p.get("seed", 0))
    prob = rng.random((X, Y)) + 0.05
    prob /= prob.sum()
    if p.get("kind") == "tail":
        # the enumerated player's best answer function gives the HIGHEST label on every question (the last strategy index)
        pred = np.zeros((A, B, X, Y))
        pred[:, B - 1, :, :] = 1.0
        pred *= rng.random((A, 1, X, 1)) * 0.2 + 0.8
    elif p.get("kind") == "head-high":
        pred = (rng.random((A, B, X, Y)) < 0.3).astype(float)
        pred[:, B - 1, :, : Y // 2] = 1.0
    else:
        pred = (rng.random((A, B, X, Y)) < 0.5).astype(float)
    W = prob[None, None, :, :] * pred  # (A,B,X,Y)
    best = -1.0
    for g in itertools.product(range(B), repeat=Y):
        # S[a,x] = sum_y W[a, g(y), x, y]
        S = sum(W[:, g[y], :, y] for y in range(Y))
        best = max(best, float(S.max(axis=0).sum()))
    # the same maximum from the other player's side (max over f of sum_y max_b ...), as a cross-check of the oracle
    best2 = -1.0
    if A**X <= 5000:
        for f in itertools.product(range(A), repeat=X):
            T = sum(W[f[x], :, x, :] for x in range(X))
            best2 = max(best2, float(T.max(axis=0).sum()))
        if abs(best - best2) > 1e-9:
            raise Violation("oracle inconsistency %.9f vs %.9f" % (best, best2))
    got = NonlocalGame(prob, pred).classical_value()
    if got < best - 1e-9:
        raise Violation("classical_value %.6f < exact optimum %.6f on shape (A,B,X,Y)=%s with more than 1000 strategies per player (%s)" % (got, best, p["shape"], p.get("kind")))
    if got > best + 1e-9:
        raise Violation("classical_value %.6f > exact optimum %.6f on shape (A,B,X,Y)=%s (%s)" % (got, best, p["shape"], p.get("kind")))


def pi_value(p):
    """process_iteration(i, B, Y, P, A, X) == sum_x max_a sum_y P[a, x, g_i(y), y] with g_i the base-B digits of i"""
    import numpy as np

    from toqito.nonlocal_games.nonlocal_game import NonlocalGame
    from vt.contract import Violation

    A, X, B, Y = p["shape"]
    rng = np.random.default_rng(p.get("seed", 0))
    P = rng.random((A, X, B, Y))
    for i in range(B**Y):
        digs = []
        n = i
        for _ in range(Y):
            digs.append(n % B)
            n //= B
        digs = digs[::-1]
        exp = sum(max(sum(P[a, x, digs[y], y] for y in range(Y)) for a in range(A)) for x in range(X))
        got = NonlocalGame.process_iteration(i, B, Y, P, A, X)
        if abs(got - exp) > 1e-9:
            raise Violation("process_iteration(i=%d) = %.6f, strategy value is %.6f" % (i, got, exp))


def cv_reps(p):
    """a game constructed with r repetitions is the r-fold product game"""
    import numpy as np

    from toqito.nonlocal_games.nonlocal_game import NonlocalGame
    from vt.contract import Violation

    prob, pred = _game(p["shape"], p.get("kind", "frac"), p.get("seed", 0))
    A, B, X, Y = pred.shape
    r = p.get("reps", 2)
    g = NonlocalGame(prob, pred, r)
    prob2 = prob
    pred2 = pred
    for _ in range(r - 1):
        prob2 = np.kron(prob2, prob)
        a2, b2, x2, y2 = pred2.shape
        new = np.zeros((a2 * A, b2 * B, x2 * X, y2 * Y))
        for a1 in range(a2):
            for aa in range(A):
                for b1 in range(b2):
                    for bb in range(B):
                        for x1 in range(x2):
                            for xx in range(X):
                                for y1 in range(y2):
                                    for yy in range(Y):
                                        new[a1 * A + aa, b1 * B + bb, x1 * X + xx, y1 * Y + yy] = pred2[a1, b1, x1, y1] * pred[aa, bb, xx, yy]
        pred2 = new
    if g.prob_mat.shape != prob2.shape or not np.allclose(g.prob_mat, prob2, atol=1e-12):
        raise Violation("reps=%d: question distribution is not the product distribution" % r)
    if g.pred_mat.shape != pred2.shape or not np.allclose(g.pred_mat, pred2, atol=1e-12):
        raise Violation("reps=%d: predicate is not the product predicate (max deviation %.3g)" % (r, float(np.max(np.abs(g.pred_mat - pred2))) if g.pred_mat.shape == pred2.shape else -1))
    if (A * A) ** (X * X) * (B * B) ** (Y * Y) <= 5000 and r == 2:
        got = g.classical_value()
        exp = _brute(prob2, pred2)
        if abs(got - exp) > 1e-9:
            raise Violation("reps=2: classical value %.6f, brute force on the product game %.6f" % (got, exp))


def bcs(p):
    """a game built from binary constraints scores exactly the satisfying consistent assignments"""
    import numpy as np

    from toqito.nonlocal_games.nonlocal_game import NonlocalGame
    from vt.contract import Violation

    nv, nc = p["nv"], p["nc"]
    rng = np.random.default_rng(p.get("seed", 0))
    cons = []
    for j in range(nc):
        while True:
            c = (rng.random((2,) * nv) < 0.5).astype(int)
            dep = [np.diff(c, axis=i).any() for i in range(nv)]
            if any(dep):
                break
        cons.append(c)
    g = NonlocalGame.from_bcs_game(cons)
    if g.pred_mat.shape != (2**nv, 2, nc, nv):
        raise Violation("BCS game predicate has shape %s" % (g.pred_mat.shape,))
    for x in range(nc):
        dep = np.array([np.diff(cons[x], axis=i).any() for i in range(nv)], dtype=float)
        for a in range(2**nv):
            bits = tuple(int(t) for t in np.binary_repr(a, nv))
            for y in range(nv):
                for b in (0, 1):
                    exp = 1.0 if (cons[x][bits] == 1 and b == bits[y]) else 0.0
                    if g.pred_mat[a, b, x, y] != exp:
                        raise Violation("BCS predicate[a=%d,b=%d,x=%d,y=%d] = %s, satisfying-and-consistent indicator is %s" % (a, b, x, y, g.pred_mat[a, b, x, y], exp))
        pexp = (1.0 / nc) * dep / dep.sum()
        if not np.allclose(g.prob_mat[x], pexp, atol=1e-12):
            raise Violation("BCS question distribution row %d is %s, expected %s" % (x, g.prob_mat[x], pexp))
    if abs(g.prob_mat.sum() - 1) > 1e-12:
        raise Violation("BCS question distribution sums to %.6f" % g.prob_mat.sum())


def order(p):
    """classical <= NPA_k, q_lb <= NPA_k, NPA_2 <= NPA_1+ab <= NPA_1 <= NS <= 1 (SDP tolerance)"""
    import numpy as np

    from toqito.nonlocal_games.nonlocal_game import NonlocalGame
    from vt.contract import Undecided, Violation

    prob, pred = _game(p["shape"], p.get("kind", "01"), p.get("seed", 0))
    g = NonlocalGame(prob, pred)
    cv = g.classical_value()
    ns = g.nonsignaling_value()
    vals = {}
    for k in p.get("levels", [1, "1+ab"]):
        v = g.commuting_measurement_value_upper_bound(k=k)
        if v is None or not np.isfinite(v):
            raise Undecided("NPA level %s: solver returned %r" % (k, v))
        vals[str(k)] = float(v)
    if ns is None or not np.isfinite(ns):
        raise Undecided("non-signalling SDP returned %r" % (ns,))
    tol = TOL_SDP
    if ns > 1 + tol:
        raise Violation("non-signalling value %.6f > 1" % ns)
    for k, v in vals.items():
        if cv > v + tol:
            raise Violation("classical value %.6f > NPA level %s bound %.6f" % (cv, k, v))
        if v > ns + tol:
            raise Violation("NPA level %s bound %.6f > non-signalling value %.6f" % (k, v, ns))
    seq = [vals.get("2"), vals.get("1+ab"), vals.get("1")]
    seq = [s for s in seq if s is not None]
    for a, b in zip(seq, seq[1:]):
        if a > b + tol:
            raise Violation("NPA bounds not non-increasing in the level: %s" % vals)
    if p.get("qlb"):
        np.random.seed(p.get("seed", 0))
        ql = g.quantum_value_lower_bound(dim=2, iters=2)
        if ql is None or not np.isfinite(ql):
            raise Undecided("see-saw returned %r" % (ql,))
        for k, v in vals.items():
            if ql > v + 2 * tol:
                raise Violation("quantum lower bound %.6f > NPA level %s bound %.6f" % (ql, k, v))
    return {"cv": cv, "ns": float(ns), **vals}


def frame_snapshot(p):
    """computing any value leaves the game object unchanged; values do not depend on evaluation order"""
    import copy

    import numpy as np

    from toqito.nonlocal_games.nonlocal_game import NonlocalGame
    from vt.contract import Violation

    prob, pred = _game(p.get("shape", [2, 2, 2, 2]), "frac", p.get("seed", 0))
    g = NonlocalGame(prob.copy(), pred.copy())
    ref = {}
    calls = {
        "classical_value": lambda G: G.classical_value(),
        "nonsignaling_value": lambda G: G.nonsignaling_value(),
        "commuting_measurement_value_upper_bound": lambda G: G.commuting_measurement_value_upper_bound(k=1),
        "quantum_value_lower_bound": lambda G: G.quantum_value_lower_bound(dim=2, iters=1),
    }
    first = NonlocalGame(prob.copy(), pred.copy())
    for m in p["order"]:
        if m != "quantum_value_lower_bound":
            ref[m] = calls[m](NonlocalGame(prob.copy(), pred.copy()))
    for m in p["order"]:
        v = calls[m](g)
        if not (np.array_equal(g.prob_mat, prob) and np.array_equal(g.pred_mat, pred) and g.reps == 1):
            raise Violation("%s modified the game object (prob_mat/pred_mat/reps changed)" % m)
        if m in ref and abs(v - ref[m]) > TOL_SDP:
            raise Violation("%s returned %.6f after %s, but %.6f on a fresh object" % (m, v, p["order"], ref[m]))


def odometer_successor(p):
    """update_odometer is the mixed-radix successor; a list argument is not modified"""
    import numpy as np

    from toqito.helper import update_odometer
    from vt.contract import Violation

    n, kind = p["n"], p.get("kind", "list")
    for upper in itertools.product((1, 2, 3), repeat=n):
        tot = 1
        for u in upper:
            tot *= u
        for v in range(tot):
            digs = []
            m = v
            for u in reversed(upper):
                digs.append(m % u)
                m //= u
            old = digs[::-1]
            w = (v + 1) % tot
            digs = []
            m = w
            for u in reversed(upper):
                digs.append(m % u)
                m //= u
            exp = digs[::-1]
            arg = list(old) if kind == "list" else np.array(old, dtype=int)
            up = list(upper) if kind == "list" else np.array(upper)
            got = update_odometer(arg, up)
            if list(got) != exp:
                raise Violation("update_odometer(%s, %s) = %s, successor is %s" % (old, list(upper), list(got), exp))
            if kind == "list" and arg != old:
                raise Violation("update_odometer modified its list argument: %s -> %s" % (old, arg))
            if list(up) != list(upper):
                raise Violation("update_odometer modified upper_lim")


def npa_words(p):
    """_reduce is idempotent, generated words are reduced and pairwise distinct, level-1 count formula"""
    from toqito.helper.npa_hierarchy import _gen_words, _reduce
    from vt.contract import Violation

    a_out, a_in, b_out, b_in, k = p["a_out"], p["a_in"], p["b_out"], p["b_in"], p["k"]
    words = _gen_words(k, a_out, a_in, b_out, b_in)
    if len(set(words)) != len(words):
        raise Violation("generated words contain duplicates at k=%s" % (k,))
    for w in words[1:]:
        r = _reduce(w)
        if r != w:
            raise Violation("generated word %s is not reduced (%s)" % (w, r))
        if _reduce(r) != r:
            raise Violation("_reduce is not idempotent on %s" % (w,))
    if k == 1:
        exp = 1 + a_in * (a_out - 1) + b_in * (b_out - 1)
        if len(words) != exp:
            raise Violation("level-1 word count %d, expected %d" % (len(words), exp))
    if k == "1+ab":
        exp = 1 + a_in * (a_out - 1) + b_in * (b_out - 1) + a_in * (a_out - 1) * b_in * (b_out - 1)
        if len(words) != exp:
            raise Violation("level-1+ab word count %d, expected %d" % (len(words), exp))


CLAUSES = {
    "cv.bruteforce_ge": cv_bruteforce_ge,
    "cv.bruteforce_le": cv_bruteforce_le,
    "pi.value": pi_value,
    "cv.pool_branch": cv_pool_branch,
    "cv.reps": cv_reps,
    "bcs": bcs,
    "order": order,
    "frame.snapshot": frame_snapshot,
    "odometer.successor": odometer_successor,
    "npa.words": npa_words,
}
_FN = {"cv.pool_branch": "classical_value", "cv.bruteforce_ge": "classical_value", "cv.bruteforce_le": "classical_value", "pi.value": "process_iteration", "cv.reps": "NonlocalGame.__init__", "bcs": "from_bcs_game", "order": "value ordering", "frame.snapshot": "value methods", "odometer.successor": "update_odometer", "npa.words": "npa_hierarchy"}
for _k, _f in CLAUSES.items():
    _f.function = _FN[_k]
order.limit = 120
frame_snapshot.limit = 120


def cases(tier, seed):
    thorough = tier == "thorough"
    out = []

    def add(clause, params, ic, nontrivial=True):
        out.append(dict(clause=clause, params=params, input_class=ic, nontrivial=nontrivial))

    for shape in itertools.product((1, 2, 3), repeat=4):
        A, B, X, Y = shape
        if A**X * B**Y > 729:
            continue
        nt = shape != (1, 1, 1, 1)
        for kind in ("01", "frac", "01sparseprob"):
            for s in (seed, seed + 1) if thorough else (seed,):
                add("cv.bruteforce_ge", dict(shape=list(shape), kind=kind, seed=s), "classical_value/shape", nt)
                add("cv.bruteforce_le", dict(shape=list(shape), kind=kind, seed=s), "classical_value/shape", nt)
    for shape in ([2, 2, 2, 2], [2, 2, 3, 2], [3, 2, 2, 2], [2, 3, 2, 3], [1, 2, 2, 2]):
        for kind in ("01int", "01bool"):
            add("cv.bruteforce_ge", dict(shape=list(shape), kind=kind, seed=seed), "classical_value/pred-dtype-%s" % kind[2:])
            add("cv.bruteforce_le", dict(shape=list(shape), kind=kind, seed=seed), "classical_value/pred-dtype-%s" % kind[2:])
    for shape, kind in (([3, 3, 7, 7], "tail"), ([2, 3, 11, 7], "tail"), ([3, 2, 7, 11], "head-high"), ([2, 2, 11, 10], "random")):
        out.append(dict(clause="cv.pool_branch", params=dict(shape=shape, kind=kind, seed=seed), input_class="classical_value/pool-branch/%s" % kind, nontrivial=True, inline=True))
    for shape in ([2, 2, 3, 2], [3, 2, 2, 3], [2, 3, 2, 1], [2, 2, 2, 4], [1, 3, 2, 2]):
        add("pi.value", dict(shape=shape, seed=seed), "process_iteration")
    for shape in itertools.product((1, 2), repeat=4):
        add("cv.reps", dict(shape=list(shape), kind="frac", seed=seed, reps=2), "reps=2", shape != (1, 1, 1, 1))
    add("cv.reps", dict(shape=[2, 3, 2, 1], kind="01", seed=seed, reps=2), "reps=2")
    add("cv.reps", dict(shape=[2, 1, 1, 2], kind="frac", seed=seed, reps=3), "reps=3")
    for nv, nc in ((1, 1), (2, 1), (2, 2), (3, 1), (3, 2), (2, 3)):
        for s in range(3):
            add("bcs", dict(nv=nv, nc=nc, seed=seed + s), "bcs")
    for n in (0, 1, 2, 3, 4):
        add("odometer.successor", dict(n=n, kind="list"), "update_odometer/list", n > 0)
        add("odometer.successor", dict(n=n, kind="ndarray"), "update_odometer/ndarray", n > 0)
    for a_out, a_in, b_out, b_in in itertools.product((1, 2, 3), repeat=4):
        for k in (1, "1+ab", 2):
            if k == 2 and (a_out - 1) * a_in + (b_out - 1) * b_in > 6:
                continue
            add("npa.words", dict(a_out=a_out, a_in=a_in, b_out=b_out, b_in=b_in, k=k), "npa_words")
    # value ordering: asymmetric random games
    shapes = [[2, 2, 2, 2], [2, 3, 2, 2], [3, 2, 2, 2], [2, 2, 1, 2], [2, 2, 2, 1], [3, 2, 1, 2], [2, 3, 2, 1], [2, 2, 3, 2], [2, 2, 2, 3], [3, 3, 2, 2]]
    reps = 3 if thorough else 1
    for i, sh in enumerate(shapes):
        for r in range(reps):
            levels = [1, "1+ab", 2] if (sh[0] == 2 and sh[1] == 2 and sh[2] * sh[3] <= 4) else [1, "1+ab"]
            add("order", dict(shape=sh, kind="01" if (i + r) % 2 == 0 else "frac", seed=seed + 7 * i + r, levels=levels, qlb=(i % 3 == 0)), "ordering")
    for kind in ("01int", "01bool"):
        add("order", dict(shape=[2, 2, 2, 2], kind=kind, seed=seed + 3, levels=[1, "1+ab"], qlb=True), "ordering/pred-dtype-%s" % kind[2:])
        add("order", dict(shape=[2, 3, 2, 2], kind=kind, seed=seed + 4, levels=[1], qlb=False), "ordering/pred-dtype-%s" % kind[2:])
    import random

    rnd = random.Random(seed)
    methods = ["classical_value", "nonsignaling_value", "commuting_measurement_value_upper_bound", "quantum_value_lower_bound"]
    orders = list(itertools.permutations(methods))
    if not thorough:
        orders = rnd.sample(orders, 6)
    for o in orders:
        add("frame.snapshot", dict(order=list(o), seed=seed, shape=[2, 2, 2, 2]), "frame/order")
    return out


# ---------------------------------------------------------------------------------------------
# the constructor's parallel-repetition branch (E1-integer, contracts/reps_ctor.py)
# ---------------------------------------------------------------------------------------------
_prove_values = prove


def prove(tier, seed):  # noqa: F811
    from props.reps_prove import prove_reps
    from vt.pyvc.termproofs import merge

    replay = [dict(c, function="NonlocalGame.__init__") for c in cases("quick", seed) if c["clause"] == "cv.reps"]
    return merge(_prove_values(tier, seed), prove_reps("toqito/nonlocal_games/nonlocal_game.py", "NonlocalGame.__init__", 2, replay, "c07r", tier))
