"""Deductive part of C04 / C05 (E2): the channel operations write through none of their arguments (in particular not into
the caller's list of Kraus operators), so every representation can be reused and converted in any order."""

TARGETS_C04 = [
    ("toqito/channel_ops/apply_channel.py", "apply_channel"),
    ("toqito/channel_ops/kraus_to_choi.py", "kraus_to_choi"),
    ("toqito/channel_ops/choi_to_kraus.py", "choi_to_kraus"),
    ("toqito/channel_ops/partial_channel.py", "partial_channel"),
    ("toqito/channel_ops/natural_representation.py", "natural_representation"),
    ("toqito/helper/channel_dim.py", "channel_dim"),
]
TARGETS_C05 = [
    ("toqito/channel_ops/dual_channel.py", "dual_channel"),
    ("toqito/channel_ops/complementary_channel.py", "complementary_channel"),
]
M = "toqito.channel_ops"


def frame_cases(which, seed=0):
    out = []

    def add(fn, args, ic, **kw):
        out.append(dict(clause="frame.generic", params=dict(module=M, fn=fn, args=args, **kw), input_class="frame/%s/%s" % (fn, ic), nontrivial=True, function=fn))

    forms = ("kraus_flat", "kraus_nested", "kraus_pairs", "choi")
    if which == "C04":
        for form in forms:
            for di, do in ((2, 2), (2, 3), (3, 2)):
                phi = dict(kind=form, d_in=di, d_out=do, r=3 if form == "kraus_nested" else 2, seed=seed)
                add("apply_channel", [dict(kind="matrix", shape=[di, di], seed=seed + 1), phi], form)
                if form != "choi":
                    add("kraus_to_choi", [phi], form)
                    add("natural_representation", [phi], form) if form == "kraus_flat" and di == do else None
                if di == do:
                    add("partial_channel", [dict(kind="matrix", shape=[di * 3, di * 3], seed=seed + 2), phi, dict(kind="const", v=1), dict(kind="array", v=[di, 3])], form + "/sys=1")
                    add("partial_channel", [dict(kind="matrix", shape=[2 * di * 2, 2 * di * 2], seed=seed + 3), phi, dict(kind="const", v=2), dict(kind="array", v=[2, di, 2])], form + "/sys=2of3")
        for di, do in ((2, 2), (2, 3)):
            add("choi_to_kraus", [dict(kind="choi", d_in=di, d_out=do, r=2, seed=seed)], "choi", tol=1e-8, kwargs=(dict(dim=dict(kind="array", v=[[di, do], [di, do]])) if di != do else {}))
    else:
        for form in ("kraus_flat", "kraus_pairs", "choi"):
            for di, do in ((2, 2), (2, 3)):
                phi = dict(kind=form, d_in=di, d_out=do, r=2, seed=seed)
                args = [phi] + ([dict(kind="array", v=[[di, do], [di, do]])] if (form == "choi" and di != do) else [])
                add("dual_channel", args, form)
        for d in (2, 3):
            add("complementary_channel", [dict(kind="kraus_flat", d_in=d, d_out=d, r=2, seed=seed)], "kraus_flat")
    return [c for c in out if c is not None]


def _prove(which, targets):
    from props.frame_common import e2_records

    replay = frame_cases(which)
    recs = e2_records(targets, replay)
    per = {q: sum(1 for x in recs if x.get("claim") and x["function"] == q) for _, q in targets}
    # planted: the in-place extension of the caller's Kraus list must be refuted
    import ast
    import copy
    import os

    from vt.common import REPO
    from vt.frame import Index, frame_obligations

    planted = {"tried": 0, "refuted": 0, "survivors": [], "anchors_missing": [], "detail": []}
    muts = [("toqito/channel_ops/partial_channel.py", "partial_channel", "            phi = []\n            for m in phi_list:\n                phi.append(", "            phi = phi_map\n            for m in phi_list:\n                phi.append(")] if which == "C04" else [("toqito/channel_ops/dual_channel.py", "dual_channel", "            return [a.conj().T for a in phi_op]", "            for i, a in enumerate(phi_op):\n                phi_op[i] = a.conj().T\n            return phi_op")]
    ix = Index()
    for rel, name, old, new in muts:
        text = open(os.path.join(REPO, rel)).read()
        if old not in text:
            planted["anchors_missing"].append("%s: %s" % (name, old[:40]))
            continue
        ix2 = copy.copy(ix)
        ix2.modules = dict(ix.modules)
        ix2.funcs = dict(ix.funcs)
        tree = ast.parse(text.replace(old, new, 1))
        ix2.modules[rel] = tree
        for node in tree.body:
            if isinstance(node, ast.FunctionDef):
                ix2.funcs[node.name] = (rel, node)
        r, S = frame_obligations(ix2, rel, name, modifies=())
        bad = [x for x in r if x["status"] != "discharged"]
        planted["tried"] += 1
        if bad:
            planted["refuted"] += 1
            planted["detail"].append({"mutant": "%s: caller's list extended/overwritten in place" % name, "not_discharged": len(bad), "first": bad[0]["text"][:120]})
        else:
            planted["survivors"].append(name)
    from vt import extract

    sc = {"nonzero_claim_obligations": {"ok": all(v > 0 for v in per.values()), "detail": per}, "planted_bugs_all_refuted": {"ok": planted["tried"] == planted["refuted"], "detail": planted}}
    return dict(records=recs, functions=[extract.Source(rel).info(q) for rel, q in targets], instances=len(targets), planted=planted, selfchecks=sc)


def dual_choi_records(src=None):
    """E1-array: dual_channel on a Choi matrix exchanges the two tensor factors and conjugates every entry, for ALL input/output dimensions
    (square and rectangular operator spaces); channel_dim and swap are seen through their contracts"""
    import sympy as sp

    from contracts import index_layer as IL
    from vt import extract
    from vt.pyvc import index_proofs as IP
    from vt.pyvc.driver import verify_instance

    src = src or extract.Source("toqito/channel_ops/dual_channel.py")
    fn = src.function("dual_channel")
    out = []
    di, do = IP.atoms("d", 2)
    for rect in (False, True):
        di1, do1 = IP.atoms("e", 2) if rect else (di, do)

        def mk(di1=di1, do1=do1, rect=rect):
            J = IP.X_of((di * do, di1 * do1), "J")
            return [J, [[di, do], [di1, do1]] if rect else [di, do]], {}, [sp.Ge(di * do, 2), sp.Ge(di1 * do1, 2)] + [sp.Ge(x, 1) for x in {di, do, di1, do1}]

        contracts = {"channel_dim": IL.summary_channel_dim_choi([di, di1], [do, do1]), "swap": IL.summary_swap}
        recs, ms = verify_instance("dual_channel", "dual_channel(Choi matrix), %s operator spaces, all dimensions" % ("rectangular" if rect else "square"), {"dual_channel": fn}, contracts, mk, (lambda a, k, di1=di1, do1=do1: IL.spec_dual_choi(a[0], [di, di1], [do, do1])), (lambda a, k, di1=di1, do1=do1: [[do, di], [do1, di1]]), atoms=list({di, do, di1, do1}))
        for x in recs:
            x["clean"] = True
            if x["status"] != "discharged":
                x["replay"] = [dict(clause="frame.generic", function="dual_channel", input_class="frame/dual_channel/choi", params=dict(module=M, fn="dual_channel", args=[dict(kind="choi", d_in=2, d_out=3, r=2, seed=1), dict(kind="array", v=[[2, 3], [2, 3]])]))]
        out += recs
    for i, x in enumerate(out):
        x["_id"] = "dualchoi.%d" % i
    return out


def _bilinear(out, which, groups, tier="quick"):
    """append the E1-array/bilinear obligations (all-dimension proofs of the channel operations), their lemmas and planted mutants"""
    from props import C04_bilinear as B
    from vt import extract

    B.set_tier(tier)

    recs = B.records(groups) + B.lemmas(which)
    cache = {}
    for x in recs:
        if x["status"] != "discharged" and x["function"] in B.REL:
            if x["function"] not in cache:
                cache[x["function"]] = B.replay_cases(x["function"])
            x["replay"] = cache[x["function"]]
    out["records"] = out["records"] + recs
    out["instances"] += len({x["instance"] for x in recs})
    have = {(f["file"], f.get("function")) for f in out["functions"]}
    for g in groups + (["channel_dim", "max_entangled"] if which == "C04" else []):
        info = extract.Source(B.REL[g]).info(g)
        if (info["file"], info.get("function")) not in have:
            out["functions"].append(info)
    pl = B.planted(which)
    P = out["planted"]
    P["tried"] += pl["tried"]
    P["refuted"] += pl["refuted"]
    P["survivors"] += pl["survivors"]
    P["anchors_missing"] += pl["anchors_missing"]
    P["detail"] += pl["detail"]
    per = {}
    for x in recs:
        if x.get("claim"):
            per[x["function"]] = per.get(x["function"], 0) + 1
    out["selfchecks"]["planted_bugs_all_refuted"] = {"ok": P["tried"] == P["refuted"], "detail": P}
    out["selfchecks"]["bilinear_nonzero_claim_obligations"] = {"ok": all(per.get(g, 0) > 0 for g in groups) and per.get("(lemma over contracts)", 0) > 0, "detail": per}
    from vt.pyvc import bilinear as BL

    cc = BL.crosscheck(40, 0)
    out["selfchecks"]["bilinear_numpy_crosscheck"] = {"ok": cc["ok"], "detail": cc}
    return out


def prove(tier, seed):
    return _bilinear(_prove("C04", TARGETS_C04), "C04", ["apply_channel", "partial_channel", "kraus_to_choi", "natural_representation"], tier)


def prove_c05(tier, seed):
    from vt import extract

    out = _prove("C05", TARGETS_C05)
    out["records"] = out["records"] + dual_choi_records()
    src = extract.Source("toqito/channel_ops/dual_channel.py")
    for old, new in (("swap(phi_op.conj(), dim=", "swap(phi_op, dim="), ("dim=[[d_in[0], d_out[0]], [d_in[1], d_out[1]]]", "dim=[[d_out[0], d_in[0]], [d_out[1], d_in[1]]]")):
        try:
            bad = [x for x in dual_choi_records(src.mutated(old, new)) if x["status"] != "discharged"]
        except KeyError:
            out["planted"]["anchors_missing"].append("dual_channel: " + old)
            continue
        out["planted"]["tried"] += 1
        if bad:
            out["planted"]["refuted"] += 1
            out["planted"]["detail"].append({"mutant": "dual_channel: %s -> %s" % (old, new), "not_discharged": len(bad), "first": bad[0]["text"][:100]})
        else:
            out["planted"]["survivors"].append("dual_channel: " + old)
    out["selfchecks"]["planted_bugs_all_refuted"] = {"ok": out["planted"]["tried"] == out["planted"]["refuted"], "detail": out["planted"]}
    return _bilinear(out, "C05", ["dual_channel", "complementary_channel"], tier)
