"""C14 -- entanglement / entropy quantities: closed forms on states with prescribed Schmidt data, local-unitary
invariance, entropy additivity, product test, S(k)-norm bounds.  Executor side only (bounded run-time contracts)."""
from __future__ import annotations

import itertools

ID = "C14"
TITLE = "entanglement/entropy quantities match closed forms and local-unitary invariance"
LEVEL = "exploration"
BUDGET = {"quick": 80, "thorough": 900}
ENGINES = ["E4-rtc"]
TECHNIQUE = "run-time-checked contracts on the real functions over a bounded domain (bounded stand-in)"
LEVEL_TEXT = (
    "Bounded only; nothing is proved. Every clause calls the real toqito function on a state whose Schmidt data are prescribed by construction "
    "(coefficients s_i, Haar local unitaries, local dimensions 2..4 incl. unequal, every Schmidt rank, real and complex amplitudes; column / flat vector "
    "and density-matrix input; dim given as list / ndarray / scalar / omitted where the signature admits it) and compares with the closed form computed "
    "from the s_i alone: negativity, log-negativity, entanglement of formation, two-qubit concurrence (also Bell-diagonal mixed states), vector and operator "
    "Schmidt rank, S(k) vector norm for every k, l1 coherence (brute-force double loop), Schmidt decomposition (coefficients, orthonormal factors, rebuild; "
    "vector and operator form). Local-unitary invariance of each quantity plus purity, entropy and operator Schmidt rank on pure and mixed states; entropy "
    "and purity from a prescribed spectrum; entropy additivity; is_product accepts np.kron products and rejects states with second Schmidt coefficient >= 0.05 "
    "(vectors and operators, 2 and 3 parties) and its returned factors rebuild the input; sk_operator_norm bounds bracket operators whose S(k)-norm is known in closed "
    "form (c*I + |psi><psi|, A (x) B, rank one, k >= min dim) and every value attained by sampled / optimised vectors of Schmidt rank <= k; is_block_positive "
    "accepts operators that are block positive by a margin (PSD, partial transposes of pure states + delta*I) and rejects operators with a witnessed negative "
    "expectation on a Schmidt-rank-<=k vector."
)
RULE = (
    "Deterministic grid: local dims (dA,dB) in {2,3,4}^2 x every Schmidt rank 1..min(dA,dB) x coefficient profile {equal, geometric, generic(seeded)} x input form x dim form, "
    "one case per (clause, parameters); the seed adds further generic-coefficient and mixed-state instances. Non-trivial = Schmidt rank >= 2 or a mixed state (rank-1 product "
    "cases are kept as the degenerate corner); distinct = distinct (clause, parameters)."
)
EXPLANATION = LEVEL_TEXT
TRUSTED = [
    "ground truth by construction: v = sum_i s_i (U e_i) (x) (V e_i) with U, V Haar unitaries from QR of Ginibre matrices; the closed forms are functions of the s_i only",
    "tolerance 1e-7 for LAPACK-level formulas (SVD / eigenvalue based), integer results exact, 5e-4 absolute (relative to the operator norm) for the SDP-backed S(k)-norm bounds",
    "coefficients are kept >= 0.05 so that rank decisions and entropies are judged away from the numerical threshold",
    "np.random is seeded inside the S(k)-norm clauses (the library's randomised lower bound draws from the global RNG)",
    "1-D input to entanglement_of_formation is not sampled (the function unpacks rho.shape into two values; toqito's kets are column vectors)",
]
ASSUMPTIONS = TRUSTED

TOL = 1e-7
TOL_SDP = 5e-4


# =============================================================================================
# executor side: generators (ground truth by construction)
# =============================================================================================
def _haar(d, rng, real=False):
    import numpy as np

    if real:
        g = rng.standard_normal((d, d))
    else:
        g = rng.standard_normal((d, d)) + 1j * rng.standard_normal((d, d))
    q, r = np.linalg.qr(g)
    ph = np.diag(r) / np.abs(np.diag(r))
    return q * ph


def _coeffs(r, profile, rng):
    """r Schmidt coefficients, each >= 0.05, sum of squares 1, sorted descending"""
    import numpy as np

    if profile == "equal":
        s = np.ones(r)
    elif profile == "geometric":
        s = np.array([0.6**i for i in range(r)])
    else:
        s = 0.15 + rng.random(r)
    s = np.sort(s / np.linalg.norm(s))[::-1]
    return s


def _pure(p):
    import numpy as np

    dA, dB = p["dims"]
    r = p["r"]
    rng = np.random.default_rng([p.get("seed", 0), dA, dB, r])
    s = _coeffs(r, p.get("profile", "generic"), rng)
    real = bool(p.get("real"))
    U = _haar(dA, rng, real)
    V = _haar(dB, rng, real)
    v = np.zeros(dA * dB, dtype=float if real else complex)
    for i in range(r):
        v = v + s[i] * np.kron(U[:, i], V[:, i])
    return v, s, U, V


def _form(v, form):
    import numpy as np

    if form == "flat":
        return v.copy()
    if form == "col":
        return v.reshape(-1, 1).copy()
    rho = np.outer(v, v.conj())
    return (rho + rho.conj().T) / 2


def _dimargs(p):
    """positional tail for the dim argument: () when omitted"""
    import numpy as np

    dA, dB = p["dims"]
    f = p.get("dimform", "list")
    if f == "list":
        return ([int(dA), int(dB)],)
    if f == "array":
        return (np.array([dA, dB]),)
    if f == "scalar":
        return (int(dA),)
    if f == "omitted":
        if dA != dB:
            raise ValueError("dim may only be omitted for equal local dimensions")
        return ()
    raise ValueError(f)


def _mixed(dA, dB, rank, rng, real=False):
    import numpy as np

    n = dA * dB
    g = rng.standard_normal((n, rank)) if real else rng.standard_normal((n, rank)) + 1j * rng.standard_normal((n, rank))
    rho = g @ g.conj().T
    rho = (rho + rho.conj().T) / 2
    return rho / np.trace(rho).real


def _local(dA, dB, rng, real=False):
    import numpy as np

    return np.kron(_haar(dA, rng, real), _haar(dB, rng, real))


def _fail(what, got, exp, p):
    from vt.contract import Violation

    raise Violation("%s = %r, closed form gives %.12g (dims %s, Schmidt rank %s, profile %s, form %s, dim %s)" % (what, got, exp, p.get("dims"), p.get("r"), p.get("profile"), p.get("form"), p.get("dimform")))


def _num(x):
    """a scalar result as complex (some functions return complex128 with a rounding-level imaginary part)"""
    import numpy as np

    a = np.asarray(x)
    if a.size != 1:
        from vt.contract import Violation

        raise Violation("result is not a scalar: shape %s" % (a.shape,))
    return complex(a.reshape(-1)[0])


# =============================================================================================
# closed forms on pure states
# =============================================================================================
def neg_closed(p):
    """negativity(pure state) == ((sum s_i)^2 - 1) / 2"""
    from toqito.state_props import negativity

    v, s, _, _ = _pure(p)
    got = _num(negativity(_form(v, p["form"]), *_dimargs(p)))
    exp = (s.sum() ** 2 - 1) / 2
    if abs(got - exp) > TOL:
        _fail("negativity", got, exp, p)


def logneg_closed(p):
    """log_negativity(pure state) == log2((sum s_i)^2)"""
    import numpy as np

    from toqito.state_props import log_negativity

    v, s, _, _ = _pure(p)
    got = _num(log_negativity(_form(v, p["form"]), *_dimargs(p)))
    exp = float(np.log2(s.sum() ** 2))
    if abs(got - exp) > TOL:
        _fail("log_negativity", got, exp, p)


def neg_mixed(p):
    """mixed states: negativity == sum of |negative eigenvalues| of the partial transpose (documented), log_negativity == log2(1 + 2 N)"""
    import numpy as np

    from toqito.state_props import log_negativity, negativity
    from vt.contract import Violation

    dA, dB = p["dims"]
    rng = np.random.default_rng([p.get("seed", 0), dA, dB, 41])
    rho = _mixed(dA, dB, p.get("rank", dA * dB), rng, bool(p.get("real")))
    n = dA * dB
    pt = rho.reshape(dA, dB, dA, dB).transpose(0, 3, 2, 1).reshape(n, n)
    ev = np.linalg.eigvalsh((pt + pt.conj().T) / 2)
    exp = float(-ev[ev < 0].sum())
    got = _num(negativity(rho, *_dimargs(p)))
    if abs(got - exp) > TOL:
        raise Violation("negativity = %r on a rank-%d mixed %dx%d state, the negative eigenvalues of the partial transpose sum to %.10f (dim %s)" % (got, p.get("rank", n), dA, dB, -exp, p.get("dimform")))
    got2 = _num(log_negativity(rho, *_dimargs(p)))
    if abs(got2 - np.log2(1 + 2 * exp)) > TOL:
        raise Violation("log_negativity = %r, log2(1 + 2 N) = %.10f (dims %s, dim %s)" % (got2, np.log2(1 + 2 * exp), p["dims"], p.get("dimform")))


def eof_closed(p):
    """entanglement_of_formation(pure state) == H(s_i^2) in bits"""
    import numpy as np

    from toqito.state_props import entanglement_of_formation

    v, s, _, _ = _pure(p)
    got = _num(entanglement_of_formation(_form(v, p["form"]), *_dimargs(p)))
    exp = float(-np.sum(s**2 * np.log2(s**2)))
    if abs(got - exp) > TOL:
        _fail("entanglement_of_formation", got, exp, p)


def conc_closed(p):
    """concurrence(two-qubit pure state) == 2 s_0 s_1"""
    from toqito.state_props import concurrence

    v, s, _, _ = _pure(p)
    got = _num(concurrence(_form(v, "rho")))
    exp = 2 * s[0] * s[1] if len(s) > 1 else 0.0
    # sqrt of eigenvalues: rounding-level eigenvalues e give sqrt(e) ~ 1e-8, so the LAPACK-level tolerance is 1e-6 here
    if abs(got - exp) > 1e-6:
        _fail("concurrence", got, exp, p)


def conc_belldiag(p):
    """concurrence of a locally rotated Bell-diagonal state == max(0, 2 max_i q_i - 1); EoF follows Wootters' formula"""
    import numpy as np

    from toqito.state_props import concurrence, entanglement_of_formation
    from vt.contract import Violation

    rng = np.random.default_rng([p.get("seed", 0), 77])
    q = rng.random(4) + 0.02
    if p.get("entangled"):
        q[0] += 2.0
    q = q / q.sum()
    b = np.array([[1, 0, 0, 1], [1, 0, 0, -1], [0, 1, 1, 0], [0, 1, -1, 0]], dtype=complex) / np.sqrt(2)
    rho = sum(q[i] * np.outer(b[i], b[i].conj()) for i in range(4))
    W = _local(2, 2, rng)
    rho = W @ rho @ W.conj().T
    rho = (rho + rho.conj().T) / 2
    exp = max(0.0, 2 * q.max() - 1)
    got = _num(concurrence(rho))
    if abs(got - exp) > 1e-6:
        raise Violation("concurrence(Bell-diagonal, weights %s) = %r, closed form max(0, 2 q_max - 1) = %.10f" % (np.round(q, 4).tolist(), got, exp))
    h = lambda x: 0.0 if x <= 0 or x >= 1 else float(-x * np.log2(x) - (1 - x) * np.log2(1 - x))  # noqa: E731
    eexp = h((1 + np.sqrt(max(0.0, 1 - exp**2))) / 2)
    egot = _num(entanglement_of_formation(rho))
    if abs(egot - eexp) > 1e-5:
        raise Violation("entanglement_of_formation(Bell-diagonal) = %r, Wootters' formula gives %.10f" % (egot, eexp))


def srank_vector(p):
    """schmidt_rank(vector) == number of non-zero Schmidt coefficients"""
    from toqito.state_props import schmidt_rank
    from vt.contract import Violation

    v, s, _, _ = _pure(p)
    got = schmidt_rank(_form(v, p["form"]), *_dimargs(p))
    if int(got) != len(s):
        raise Violation("schmidt_rank = %s on a vector with exactly %d non-zero Schmidt coefficients %s (dims %s, form %s, dim %s)" % (got, len(s), s.round(4).tolist(), p["dims"], p["form"], p.get("dimform")))


def srank_operator(p):
    """operator Schmidt rank: r^2 for |psi><psi| of Schmidt rank r; R for I/d + eps * sum of R-1 independent traceless product terms"""
    import numpy as np

    from toqito.state_props import schmidt_rank
    from vt.contract import Violation

    dA, dB = p["dims"]
    if p.get("kind") == "mixed":
        rho, R = _oprank_state(p)
        got = schmidt_rank(rho, *_dimargs(p))
        if int(got) != R:
            raise Violation("operator Schmidt rank = %s for a %dx%d state built as I/d + eps*sum of %d linearly independent traceless product terms (rank %d)" % (got, dA, dB, R - 1, R))
        return
    v, s, _, _ = _pure(p)
    got = schmidt_rank(_form(v, "rho"), *_dimargs(p))
    if int(got) != len(s) ** 2:
        raise Violation("operator Schmidt rank of |psi><psi| = %s, Schmidt rank of psi is %d so it must be %d (dims %s, dim %s)" % (got, len(s), len(s) ** 2, p["dims"], p.get("dimform")))


def _oprank_state(p):
    """density matrix with operator Schmidt rank exactly R (R <= min(dA,dB)^2)"""
    import numpy as np

    dA, dB = p["dims"]
    R = p["R"]
    rng = np.random.default_rng([p.get("seed", 0), dA, dB, R, 5])

    def traceless(d, m):
        out = []
        if m == 0:
            return []
        while len(out) < m:
            g = rng.standard_normal((d, d)) + 1j * rng.standard_normal((d, d))
            h = (g + g.conj().T) / 2
            h = h - np.trace(h) / d * np.eye(d)
            out.append(h / np.linalg.norm(h, 2))
        # orthonormalise (Hilbert-Schmidt) so the terms are well separated from dependence
        vecs = np.array([o.reshape(-1) for o in out]).T
        qv, _ = np.linalg.qr(vecs)
        res = []
        for i in range(m):
            h = qv[:, i].reshape(d, d)
            h = (h + h.conj().T) / 2
            res.append(h / np.linalg.norm(h, 2))
        return res

    As = traceless(dA, R - 1)
    Bs = traceless(dB, R - 1)
    n = dA * dB
    rho = np.eye(n, dtype=complex) / n
    for a, b in zip(As, Bs):
        rho = rho + (0.5 / (n * max(1, R - 1))) * np.kron(a, b)
    rho = (rho + rho.conj().T) / 2
    return rho, R


def sd_vector(p):
    """schmidt_decomposition(vector): coefficients == prescribed s, factors orthonormal, sum_i s_i a_i (x) b_i == v"""
    import numpy as np

    from toqito.state_ops import schmidt_decomposition
    from vt.contract import Violation

    v, s, _, _ = _pure(p)
    dA, dB = p["dims"]
    k = int(p.get("k", 0))
    args = _dimargs(p)
    x = _form(v, p["form"])
    if k:
        if not args:
            out = schmidt_decomposition(x, None, k)
        else:
            out = schmidt_decomposition(x, args[0], k)
    else:
        out = schmidt_decomposition(x, *args)
    sv, A, B = out
    sv = np.asarray(sv).reshape(-1)
    n = len(s) if k == 0 else k
    if sv.shape[0] != n:
        raise Violation("schmidt_decomposition returned %d coefficients, expected %d (Schmidt rank %d, k_param %d)" % (sv.shape[0], n, len(s), k))
    full = np.concatenate([s, np.zeros(max(0, n - len(s)))])[:n]
    if np.max(np.abs(sv - full)) > TOL:
        raise Violation("Schmidt coefficients %s differ from the prescribed %s" % (sv.tolist(), full.tolist()))
    A = np.asarray(A)
    B = np.asarray(B)
    if A.shape != (dA, n) or B.shape != (dB, n):
        raise Violation("factor shapes %s, %s; expected (%d,%d), (%d,%d)" % (A.shape, B.shape, dA, n, dB, n))
    if np.max(np.abs(A.conj().T @ A - np.eye(n))) > TOL or np.max(np.abs(B.conj().T @ B - np.eye(n))) > TOL:
        raise Violation("Schmidt factors are not orthonormal (max deviation %.3g / %.3g)" % (np.max(np.abs(A.conj().T @ A - np.eye(n))), np.max(np.abs(B.conj().T @ B - np.eye(n)))))
    m = min(n, len(s))
    rebuilt = sum(sv[i] * np.kron(A[:, i], B[:, i]) for i in range(m))
    target = v if k == 0 or k >= len(s) else None
    if target is not None:
        if np.max(np.abs(rebuilt - target)) > TOL:
            raise Violation("sum_i s_i a_i (x) b_i differs from the input vector by %.3g (dims %s)" % (np.max(np.abs(rebuilt - target)), p["dims"]))
    else:
        # truncated: the k terms must be the best rank-k part: <rebuilt, v> = sum_{i<k} s_i^2 and the residual is orthogonal
        ov = np.vdot(rebuilt, v)
        if abs(ov - np.sum(s[:k] ** 2)) > TOL:
            raise Violation("truncated decomposition (k=%d): <sum_i s_i a_i b_i, v> = %r, expected %.10f" % (k, ov, np.sum(s[:k] ** 2)))


def sd_operator(p):
    """schmidt_decomposition(matrix): X == sum_i s_i A_i (x) B_i with Hilbert-Schmidt orthonormal A_i, B_i, s descending and positive"""
    import numpy as np

    from toqito.state_ops import schmidt_decomposition
    from vt.contract import Violation

    dA, dB = p["dims"]
    if p.get("kind") == "mixed":
        rng = np.random.default_rng([p.get("seed", 0), dA, dB, 9])
        X = _mixed(dA, dB, p.get("rank", dA * dB), rng)
        nexp = None
    elif p.get("kind") == "oprank":
        X, nexp = _oprank_state(p)
    else:
        v, s, _, _ = _pure(p)
        X = _form(v, "rho")
        nexp = len(s) ** 2
    sv, A, B = schmidt_decomposition(X, *_dimargs(p))
    sv = np.asarray(sv).reshape(-1)
    n = sv.shape[0]
    if nexp is not None and n != nexp:
        raise Violation("operator Schmidt decomposition has %d terms, the operator Schmidt rank is %d by construction" % (n, nexp))
    if A.shape != (dA, dA, n) or B.shape != (dB, dB, n):
        raise Violation("operator factor shapes %s, %s; expected (%d,%d,%d), (%d,%d,%d)" % (A.shape, B.shape, dA, dA, n, dB, dB, n))
    if np.any(sv < -TOL) or np.any(np.diff(sv) > TOL):
        raise Violation("operator Schmidt coefficients are not positive and descending: %s" % sv.tolist())
    ga = np.array([[np.vdot(A[:, :, i], A[:, :, j]) for j in range(n)] for i in range(n)])
    gb = np.array([[np.vdot(B[:, :, i], B[:, :, j]) for j in range(n)] for i in range(n)])
    if np.max(np.abs(ga - np.eye(n))) > TOL or np.max(np.abs(gb - np.eye(n))) > TOL:
        raise Violation("operator Schmidt factors are not Hilbert-Schmidt orthonormal (max deviation %.3g / %.3g)" % (np.max(np.abs(ga - np.eye(n))), np.max(np.abs(gb - np.eye(n)))))
    rebuilt = sum(sv[i] * np.kron(A[:, :, i], B[:, :, i]) for i in range(n))
    if np.max(np.abs(rebuilt - X)) > TOL:
        raise Violation("sum_i s_i A_i (x) B_i differs from the input operator by %.3g (dims %s)" % (np.max(np.abs(rebuilt - X)), p["dims"]))
    if p.get("kind") not in ("mixed", "oprank"):
        exp = np.sort(np.outer(s, s).reshape(-1))[::-1]
        if np.max(np.abs(sv - exp)) > TOL:
            raise Violation("operator Schmidt coefficients of |psi><psi| are %s, must be the products s_i s_j = %s" % (sv.tolist(), exp.tolist()))


def skvec_closed(p):
    """sk_vector_norm(v, k) == sqrt(sum of the k largest s_i^2)"""
    import numpy as np

    from toqito.state_props import sk_vector_norm

    v, s, _, _ = _pure(p)
    k = p["k"]
    args = _dimargs(p)
    got = _num(sk_vector_norm(_form(v, p["form"]), k, *args))
    exp = float(np.sqrt(np.sum(s[:k] ** 2)))
    if abs(got - exp) > TOL:
        _fail("sk_vector_norm(k=%d)" % k, got, exp, p)


def l1_closed(p):
    """l1_norm_coherence == sum over i != j of |rho_ij| (brute-force double loop)"""
    import numpy as np

    from toqito.state_props import l1_norm_coherence

    dA, dB = p["dims"]
    if p.get("kind") == "mixed":
        rng = np.random.default_rng([p.get("seed", 0), dA, dB, 11])
        rho = _mixed(dA, dB, p.get("rank", dA * dB), rng, bool(p.get("real")))
        x = rho
    else:
        v, s, _, _ = _pure(p)
        x = _form(v, p["form"])
        rho = np.outer(v, v.conj())
    exp = 0.0
    n = rho.shape[0]
    for i in range(n):
        for j in range(n):
            if i != j:
                exp += abs(rho[i, j])
    got = _num(l1_norm_coherence(x))
    if abs(got - exp) > TOL:
        _fail("l1_norm_coherence", got, exp, p)


# =============================================================================================
# invariance under local unitaries, spectra, additivity
# =============================================================================================
def _lu_eval(fn, p, x, dims):
    import numpy as np

    from toqito.state_ops import schmidt_decomposition
    from toqito.state_props import concurrence, entanglement_of_formation, log_negativity, negativity, purity, schmidt_rank, sk_vector_norm, von_neumann_entropy

    d = [int(dims[0]), int(dims[1])]
    if fn == "negativity":
        return _num(negativity(x, d))
    if fn == "log_negativity":
        return _num(log_negativity(x, d))
    if fn == "entanglement_of_formation":
        return _num(entanglement_of_formation(x, d))
    if fn == "concurrence":
        return _num(concurrence(x))
    if fn == "schmidt_rank":
        return complex(int(schmidt_rank(x, d)))
    if fn == "sk_vector_norm":
        return _num(sk_vector_norm(x, p.get("k", 1), d))
    if fn == "purity":
        return _num(purity(x))
    if fn == "von_neumann_entropy":
        return _num(von_neumann_entropy(x))
    if fn == "schmidt_coefficients":
        sv, _, _ = schmidt_decomposition(x, d)
        return np.asarray(sv).reshape(-1)
    raise ValueError(fn)


def lu_invariance(p):
    """f((U (x) V) rho (U (x) V)^dagger) == f(rho) for Haar local unitaries U, V"""
    import numpy as np

    from vt.contract import Violation

    fn = p["fn"]
    dA, dB = p["dims"]
    rng = np.random.default_rng([p.get("seed", 0), dA, dB, 13])
    kind = p.get("kind", "pure")
    if kind == "pure":
        v, s, _, _ = _pure(p)
        W = _local(dA, dB, rng, bool(p.get("real")))
        x0 = _form(v, p.get("form", "rho"))
        x1 = _form(W @ v, p.get("form", "rho"))
    elif kind == "oprank":
        x0, _ = _oprank_state(p)
        W = _local(dA, dB, rng)
        x1 = W @ x0 @ W.conj().T
        x1 = (x1 + x1.conj().T) / 2
    else:
        x0 = _mixed(dA, dB, p.get("rank", dA * dB), rng, bool(p.get("real")))
        W = _local(dA, dB, rng, bool(p.get("real")))
        x1 = W @ x0 @ W.conj().T
        x1 = (x1 + x1.conj().T) / 2
    a = _lu_eval(fn, p, x0, (dA, dB))
    b = _lu_eval(fn, p, x1, (dA, dB))
    tol = 1e-6 if fn in ("concurrence", "entanglement_of_formation") and kind != "pure" else TOL
    if np.shape(a) != np.shape(b) or np.max(np.abs(np.asarray(a) - np.asarray(b))) > tol:
        raise Violation("%s changes under a local unitary: %s before, %s after (dims %s, %s state, form %s)" % (fn, a, b, p["dims"], kind, p.get("form", "rho")))


def spectrum_closed(p):
    """von_neumann_entropy(U diag(q) U^dagger) == -sum q log2 q and purity == sum q^2 for a prescribed spectrum q"""
    import numpy as np

    from toqito.state_props import purity, von_neumann_entropy
    from vt.contract import Violation

    n = p["n"]
    rank = p["rank"]
    rng = np.random.default_rng([p.get("seed", 0), n, rank, 17])
    q = np.zeros(n)
    q[:rank] = 0.05 + rng.random(rank) if p.get("profile") != "equal" else 1.0
    q = q / q.sum()
    U = _haar(n, rng, bool(p.get("real")))
    rho = (U * q) @ U.conj().T
    rho = (rho + rho.conj().T) / 2
    qq = q[q > 0]
    exp_s = float(-np.sum(qq * np.log2(qq)))
    exp_p = float(np.sum(q**2))
    got_s = _num(von_neumann_entropy(rho))
    got_p = _num(purity(rho))
    if abs(got_s - exp_s) > TOL:
        raise Violation("von_neumann_entropy = %r for spectrum %s, Shannon entropy of the spectrum is %.12f" % (got_s, q.round(5).tolist(), exp_s))
    if abs(got_p - exp_p) > TOL:
        raise Violation("purity = %r for spectrum %s, sum of squares is %.12f" % (got_p, q.round(5).tolist(), exp_p))


def entropy_additive(p):
    """von_neumann_entropy(rho (x) sigma) == entropy(rho) + entropy(sigma); purity is multiplicative"""
    import numpy as np

    from toqito.state_props import purity, von_neumann_entropy
    from vt.contract import Violation

    dA, dB = p["dims"]
    rng = np.random.default_rng([p.get("seed", 0), dA, dB, 19])
    rho = _mixed(dA, 1, p.get("rankA", dA), rng, bool(p.get("real")))
    sig = _mixed(dB, 1, p.get("rankB", dB), rng, bool(p.get("real")))
    both = np.kron(rho, sig)
    both = (both + both.conj().T) / 2
    a, b, c = _num(von_neumann_entropy(rho)), _num(von_neumann_entropy(sig)), _num(von_neumann_entropy(both))
    if abs(c - (a + b)) > TOL:
        raise Violation("entropy of the product state %.10f != %.10f + %.10f (dims %s, ranks %s,%s)" % (c.real, a.real, b.real, p["dims"], p.get("rankA", dA), p.get("rankB", dB)))
    pa, pb, pc = _num(purity(rho)), _num(purity(sig)), _num(purity(both))
    if abs(pc - pa * pb) > TOL:
        raise Violation("purity of the product state %.10f != %.10f * %.10f" % (pc.real, pa.real, pb.real))


# =============================================================================================
# is_product
# =============================================================================================
def _isprod_input(p):
    """returns (x, dims argument tuple, is_product_truth, factors or None)"""
    import numpy as np

    dims = list(p["dims"])
    kind = p["kind"]  # vec | op
    rng = np.random.default_rng([p.get("seed", 0), 23] + dims)
    real = bool(p.get("real"))
    n = len(dims)

    def rv(d):
        a = rng.standard_normal(d) if real else rng.standard_normal(d) + 1j * rng.standard_normal(d)
        return a / np.linalg.norm(a)

    def rm(d):
        g = rng.standard_normal((d, d)) if real else rng.standard_normal((d, d)) + 1j * rng.standard_normal((d, d))
        return g / np.linalg.norm(g)

    gen = rv if kind == "vec" else rm
    if p["truth"]:
        fac = [gen(d) for d in dims]
        x = fac[0]
        for f in fac[1:]:
            x = np.kron(x, f)
        return x, fac
    # not product: entangle the cut given by p["cut"] = index c: parties c and c+1 carry two well separated terms
    c = p.get("cut", 0)
    terms = []
    for t in range(2):
        fac = []
        for i, d in enumerate(dims):
            if i in (c, c + 1):
                if kind == "vec":
                    e = np.zeros(d, dtype=complex if not real else float)
                    e[t] = 1.0
                else:
                    e = np.zeros((d, d), dtype=complex if not real else float)
                    e[t, t] = 1.0
                fac.append(e)
            else:
                fac.append(None)
        terms.append(fac)
    shared = [gen(d) if i not in (c, c + 1) else None for i, d in enumerate(dims)]
    w = [0.8, 0.6]
    x = None
    # local rotations on the entangled pair keep the Schmidt coefficients (0.8, 0.6): not product by a wide margin
    rot = {i: _haar(dims[i], rng, real) for i in (c, c + 1)}
    for t in range(2):
        y = None
        for i in range(n):
            if i in (c, c + 1):
                f = terms[t][i]
                f = rot[i] @ f if kind == "vec" else rot[i] @ f @ rot[i].conj().T
            else:
                f = shared[i]
            y = f if y is None else np.kron(y, f)
        x = w[t] * y if x is None else x + w[t] * y
    return x, None


def _isprod_call(p, x):
    import numpy as np

    from toqito.state_props import is_product

    dims = list(p["dims"])
    f = p.get("dimform", "list")
    if p["kind"] == "vec" and p.get("form") == "col":
        x = x.reshape(-1, 1)
    if f == "list":
        res = is_product(x, [int(d) for d in dims])
    elif f == "array":
        res = is_product(x, np.array(dims))
    elif f == "scalar":
        res = is_product(x, int(dims[0]))
    else:
        res = is_product(x)
    return res


def _isprod_verdict(res):
    import numpy as np

    from vt.contract import Violation

    if not isinstance(res, tuple) or len(res) != 2:
        raise Violation("is_product returned %r, documented to return (verdict, decomposition)" % (type(res),))
    v = np.asarray(res[0]).reshape(-1)
    if v.size != 1:
        raise Violation("is_product verdict has %d entries" % v.size)
    return bool(v[0]), res[1]


def isprod_accepts(p):
    """is_product accepts np.kron products (vectors and operators, 2 and 3 parties) and its factors rebuild the input"""
    import numpy as np

    from vt.contract import Violation

    x, fac = _isprod_input(p)
    verdict, dec = _isprod_verdict(_isprod_call(p, x))
    if not verdict:
        raise Violation("is_product rejects the Kronecker product of %d random %s (dims %s, dim form %s)" % (len(p["dims"]), "vectors" if p["kind"] == "vec" else "operators", p["dims"], p.get("dimform")))
    if dec is None or len(dec) != len(p["dims"]):
        raise Violation("is_product accepted but returned decomposition %r for %d parties" % (None if dec is None else len(dec), len(p["dims"])))
    y = None
    for i, f in enumerate(dec):
        f = np.asarray(f)
        if p["kind"] == "op":
            d = p["dims"][i]
            if f.size != d * d:
                raise Violation("factor %d has %d entries, expected %d" % (i, f.size, d * d))
            f = f.reshape(d, d)
        else:
            f = f.reshape(-1)
        y = f if y is None else np.kron(y, f)
    if y.shape != x.shape or np.max(np.abs(y - x)) > TOL:
        raise Violation("the factors returned by is_product do not rebuild the input (max deviation %s, dims %s, %s)" % ("shape %s vs %s" % (y.shape, x.shape) if y.shape != x.shape else "%.3g" % np.max(np.abs(y - x)), p["dims"], p["kind"]))


def isprod_rejects(p):
    """is_product rejects inputs whose Schmidt coefficients across some cut are (0.8, 0.6)"""
    from vt.contract import Violation

    x, _ = _isprod_input(p)
    verdict, dec = _isprod_verdict(_isprod_call(p, x))
    if verdict:
        raise Violation("is_product accepts a %s entangled across cut %d|%d with Schmidt coefficients (0.8, 0.6) (dims %s, dim form %s)" % ("vector" if p["kind"] == "vec" else "operator", p.get("cut", 0), p.get("cut", 0) + 1, p["dims"], p.get("dimform")))


# =============================================================================================
# S(k) operator norm and block positivity
# =============================================================================================
def _sk_known(p):
    """operator X with ||X||_S(k) known in closed form; returns (X, value); `scale` multiplies both (the norm is absolutely homogeneous)"""
    X, val = _sk_known_unit(p)
    sc = p.get("scale")
    if sc is not None:
        X, val = float(sc) * X, abs(float(sc)) * val
    return X, val


def _sk_known_unit(p):
    """operator X with ||X||_S(k) known in closed form; returns (X, value)"""
    import numpy as np

    dA, dB = p["dims"]
    k = p["k"]
    fam = p["family"]
    rng = np.random.default_rng([p.get("seed", 0), dA, dB, k, 29])
    n = dA * dB
    if fam == "shifted-pure":  # c I + |psi><psi| : c + sum of the k largest s_i^2
        v, s, _, _ = _pure(p)
        c = float(p.get("c", 0.3))
        X = c * np.eye(n) + np.outer(v, v.conj())
        X = (X + X.conj().T) / 2
        return X, c + float(np.sum(s[:k] ** 2))
    if fam == "rank-one":  # |psi><phi| : product of the two S(k) vector norms
        v, s, _, _ = _pure(p)
        q = dict(p)
        q["seed"] = p.get("seed", 0) + 1000
        q["r"] = p.get("r2", p["r"])
        w, t, _, _ = _pure(q)
        X = np.outer(v, w.conj())
        return X, float(np.sqrt(np.sum(s[:k] ** 2)) * np.sqrt(np.sum(t[:k] ** 2)))
    if fam == "product-herm":  # A (x) B : ||A|| ||B|| for every k
        g = rng.standard_normal((dA, dA)) + 1j * rng.standard_normal((dA, dA))
        A = (g + g.conj().T) / 2
        g = rng.standard_normal((dB, dB)) + 1j * rng.standard_normal((dB, dB))
        B = (g + g.conj().T) / 2
        A /= np.linalg.norm(A, 2)
        B /= np.linalg.norm(B, 2)
        return np.kron(A, B), 1.0
    if fam == "product-psd":
        A = _mixed(dA, 1, dA, rng)
        B = _mixed(dB, 1, dB, rng)
        return np.kron(A, B), float(np.linalg.norm(A, 2) * np.linalg.norm(B, 2))
    if fam == "product-general":  # non-Hermitian A (x) B
        A = rng.standard_normal((dA, dA)) + 1j * rng.standard_normal((dA, dA))
        B = rng.standard_normal((dB, dB)) + 1j * rng.standard_normal((dB, dB))
        A /= np.linalg.norm(A, 2)
        B /= np.linalg.norm(B, 2)
        return np.kron(A, B), 1.0
    if fam == "diagonal":  # diag(q) in the computational (product) basis, q >= 0: max q
        q = rng.random(n) + 0.05
        return np.diag(q), float(q.max())
    if fam == "local-diagonal":  # (U (x) V) diag(q) (U (x) V)^dagger, q >= 0: max q (a product eigenvector attains it)
        q = rng.random(n) + 0.05
        W = _local(dA, dB, rng)
        X = (W * q) @ W.conj().T
        return (X + X.conj().T) / 2, float(q.max())
    raise ValueError(fam)


def _sk_call(p, X, retry=True):
    """sk_operator_norm on X.  The library's randomised lower bound draws from the global numpy RNG and breaks down (LinAlgError / ValueError raised from
    its own code) for some draws; the value clauses re-draw up to 6 times so that they judge a returned pair of bounds, while the clause
    sknorm.returns_normally reports the breakdown itself (single draw, retry=False)."""
    import numpy as np

    from toqito.matrix_props.sk_norm import sk_operator_norm
    from vt.contract import Undecided, Violation

    dA, dB = p["dims"]
    f = p.get("dimform", "list")
    dim = [int(dA), int(dB)] if f == "list" else (int(dA) if f == "scalar" else None)
    res = None
    last = None
    for attempt in range(6 if retry else 1):
        np.random.seed((p.get("seed", 0) + 7919 * attempt) % (2**31))
        try:
            res = sk_operator_norm(X, p["k"], dim, None, p.get("effort", 1))
            last = None
            break
        except ValueError as e:
            if "Numerical problems" in str(e):
                raise Undecided("sk_operator_norm: SDP solver status not optimal")
            last = e
        except np.linalg.LinAlgError as e:
            last = e
    if last is not None:
        raise last
    if not isinstance(res, tuple) or len(res) != 2:
        raise Violation("sk_operator_norm returned %r, documented to return (lower, upper)" % (res,))
    lo, up = float(np.real(res[0])), float(np.real(res[1]))
    if not (np.isfinite(lo) and np.isfinite(up)):
        raise Undecided("sk_operator_norm returned non-finite bounds %r" % (res,))
    return lo, up


def sk_returns(p):
    """sk_operator_norm returns a pair of bounds (does not raise) on an admissible operator, for the RNG draw fixed by the seed"""
    X, val = _sk_known(p)
    lo, up = _sk_call(p, X, retry=False)
    return {"lower": lo, "upper": up, "value": val}


def sk_upper_ge_known(p):
    """upper bound >= the closed-form S(k)-norm"""
    import numpy as np

    from vt.contract import Violation

    X, val = _sk_known(p)
    lo, up = _sk_call(p, X)
    scale = max(1.0, float(np.linalg.norm(X, 2)))
    if up < val - TOL_SDP * scale:
        raise Violation("sk_operator_norm upper bound %.8f < S(%d)-norm %.8f known in closed form (family %s, dims %s, effort %s)" % (up, p["k"], val, p["family"], p["dims"], p.get("effort", 1)))
    return {"lower": lo, "upper": up, "value": val}


def sk_lower_le_known(p):
    """lower bound <= the closed-form S(k)-norm"""
    import numpy as np

    from vt.contract import Violation

    X, val = _sk_known(p)
    lo, up = _sk_call(p, X)
    scale = max(1.0, float(np.linalg.norm(X, 2)))
    if lo > val + TOL_SDP * scale:
        raise Violation("sk_operator_norm lower bound %.8f > S(%d)-norm %.8f known in closed form (family %s, dims %s, effort %s)" % (lo, p["k"], val, p["family"], p["dims"], p.get("effort", 1)))
    return {"lower": lo, "upper": up, "value": val}


def sk_lower_le_product_sup(p):
    """k = 1 on C^2 (x) C^N: the lower bound is at most the supremum of <a (x) b| X |a (x) b>, certified by a grid over the Bloch sphere of a plus a
    Lipschitz slack (for fixed a the maximum over b is an eigenvalue).  Operators X = lam I - (P + Q^Gamma) built from the 2 (x) 4 PPT-entangled
    Horodecki states: the PPT relaxation is NOT exact here, so a bound copied from it overshoots the S(1)-norm."""
    import numpy as np

    from vt.contract import Violation

    dA, dB = 2, 4
    b = float(p["b"])
    r = b * np.eye(8)
    r[4, 4] = r[7, 7] = (1 + b) / 2
    r[4, 7] = r[7, 4] = np.sqrt(1 - b * b) / 2
    for i, j in [(0, 5), (1, 6), (2, 7)]:
        r[i, j] = r[j, i] = b
    rho = r / (7 * b + 1)

    def pta(m):
        return m.reshape(dA, dB, dA, dB).transpose(2, 1, 0, 3).reshape(8, 8)

    def kerproj(m):
        w, v = np.linalg.eigh(m)
        ker = v[:, w < 1e-10]
        return ker @ ker.conj().T

    Y = kerproj(rho) + pta(kerproj(pta(rho)))
    lam = float(np.linalg.eigvalsh(Y)[-1])
    X = lam * np.eye(8) - Y
    xr = X.reshape(dA, dB, dA, dB)
    n_theta, n_phi = 800, 1600
    phis = (np.arange(n_phi) + 0.5) * 2 * np.pi / n_phi
    best = -np.inf
    for th in (np.arange(n_theta) + 0.5) * np.pi / n_theta:
        a = np.stack([np.full(n_phi, np.cos(th / 2), dtype=complex), np.exp(1j * phis) * np.sin(th / 2)], axis=1)
        blocks = np.einsum("ni,ijkl,nk->njl", a.conj(), xr, a)
        best = max(best, float(np.linalg.eigvalsh(blocks)[:, -1].max()))
    ang = np.hypot(np.pi / n_theta / 2, 2 * np.pi / n_phi / 2)
    eigs = np.linalg.eigvalsh(X)
    sup = best + float(eigs[-1] - eigs[0]) * np.sin(ang / 2)
    lo, up = _sk_call(dict(p, dims=[dA, dB], k=1), X)
    if lo > sup + 2e-4:
        raise Violation("sk_operator_norm lower bound %.6f exceeds the supremum over product vectors (grid maximum %.6f, certified <= %.6f) for X built from the 2x4 Horodecki state b=%g; the PPT relaxation has value %.6f" % (lo, best, sup, b, lam))
    if up < best - 2e-4:
        raise Violation("sk_operator_norm upper bound %.6f is below a value %.6f attained by a product vector (2x4 Horodecki construction, b=%g)" % (up, best, b))
    return {"lower": lo, "upper": up, "grid": best, "sup": sup}


def _truncate(v, dA, dB, k):
    """best Schmidt-rank-k approximation of v, normalised"""
    import numpy as np

    M = v.reshape(dA, dB)
    u, s, vh = np.linalg.svd(M, full_matrices=False)
    M2 = (u[:, :k] * s[:k]) @ vh[:k, :]
    w = M2.reshape(-1)
    nrm = np.linalg.norm(w)
    return w / nrm if nrm > 0 else w


def _attained(X, dA, dB, k, rng, hermitian):
    """largest |<w|X|v>| found over Schmidt-rank-<=k unit vectors (independent search: truncations, random, alternating power steps)"""
    import numpy as np

    n = dA * dB
    best = 0.0
    cands = []
    u, s, vh = np.linalg.svd(X)
    for i in range(min(n, 4)):
        cands.append((_truncate(u[:, i], dA, dB, k), _truncate(vh[i, :].conj(), dA, dB, k)))
    for _ in range(20):
        a = rng.standard_normal(n) + 1j * rng.standard_normal(n)
        b = rng.standard_normal(n) + 1j * rng.standard_normal(n)
        cands.append((_truncate(a, dA, dB, k), _truncate(b, dA, dB, k)))
    for w, v in cands:
        if hermitian:
            w = v
        for _ in range(30):
            # alternating "projected power" step: each step cannot leave the set of Schmidt-rank-<=k unit vectors
            if hermitian:
                nv = _truncate(X @ v + 1.0 * v, dA, dB, k)
                v = nv
                w = v
            else:
                w = _truncate(X @ v, dA, dB, k)
                v = _truncate(X.conj().T @ w, dA, dB, k)
            val = abs(np.vdot(w, X @ v))
            best = max(best, float(val))
    return best


def sk_upper_ge_attained(p):
    """upper bound >= |<w|X|v>| for every sampled / optimised pair of unit vectors of Schmidt rank <= k"""
    import numpy as np

    from vt.contract import Violation

    dA, dB = p["dims"]
    k = p["k"]
    rng = np.random.default_rng([p.get("seed", 0), dA, dB, k, 31])
    kind = p.get("kind", "psd")
    n = dA * dB
    if kind == "psd":
        X = _mixed(dA, dB, p.get("rank", n), rng)
        X = X / np.linalg.norm(X, 2)
    elif kind == "projection":
        Q = _haar(n, rng)[:, : p.get("rank", 3)]
        X = Q @ Q.conj().T
        X = (X + X.conj().T) / 2
    elif kind == "hermitian":
        g = rng.standard_normal((n, n)) + 1j * rng.standard_normal((n, n))
        X = (g + g.conj().T) / 2
        X = X / np.linalg.norm(X, 2)
    else:
        X = rng.standard_normal((n, n)) + 1j * rng.standard_normal((n, n))
        X = X / np.linalg.norm(X, 2)
    lo, up = _sk_call(p, X)
    att = _attained(X, dA, dB, k, rng, kind in ("psd", "projection"))
    if up < att - TOL_SDP:
        raise Violation("sk_operator_norm upper bound %.8f < %.8f attained by a pair of Schmidt-rank-<=%d unit vectors (%s operator, dims %s, effort %s)" % (up, att, k, kind, p["dims"], p.get("effort", 1)))
    if lo > up + TOL_SDP:
        raise Violation("sk_operator_norm lower bound %.8f > upper bound %.8f (%s operator, dims %s, k=%d)" % (lo, up, kind, p["dims"], k))
    if lo > float(np.linalg.norm(X, 2)) + TOL:
        raise Violation("sk_operator_norm lower bound %.8f exceeds the operator norm %.8f" % (lo, float(np.linalg.norm(X, 2))))
    return {"lower": lo, "upper": up, "attained": att}


def _bp_input(p):
    """Hermitian operator with known k-block-positivity status (by a margin); returns (X, truth, note)"""
    import numpy as np

    dA, dB = p["dims"]
    k = p["k"]
    fam = p["family"]
    rng = np.random.default_rng([p.get("seed", 0), dA, dB, k, 37])
    n = dA * dB
    if fam == "psd":
        X = _mixed(dA, dB, n, rng) + 0.05 * np.eye(n)
        return (X + X.conj().T) / 2, True
    v, s, _, _ = _pure(p)
    rho = np.outer(v, v.conj())
    W = rho.reshape(dA, dB, dA, dB).transpose(0, 3, 2, 1).reshape(n, n)  # partial transpose on the second party
    W = (W + W.conj().T) / 2
    delta = float(p.get("delta", 0.05))
    if fam == "witness-plus":  # 1-block positive with margin delta, not PSD when s0 s1 > delta
        return W + delta * np.eye(n), True
    if fam == "witness-minus":  # expectation -delta on a product vector orthogonal (after conjugation) to psi
        return W - delta * np.eye(n), False
    if fam == "witness-k2":  # W + delta I with delta < s0 s1 - 0.05: expectation delta - s0 s1 <= -0.05 on a Schmidt-rank-2 vector
        return W + delta * np.eye(n), False
    if fam == "negative-product":  # PSD minus a product projector: <ab|X|ab> <= -0.1
        a = rng.standard_normal(dA) + 1j * rng.standard_normal(dA)
        b = rng.standard_normal(dB) + 1j * rng.standard_normal(dB)
        ab = np.kron(a / np.linalg.norm(a), b / np.linalg.norm(b))
        P = np.outer(ab, ab.conj())
        Y = _mixed(dA, dB, n, rng)
        X = Y - (np.vdot(ab, Y @ ab).real + 0.1) * P
        return (X + X.conj().T) / 2, False
    raise ValueError(fam)


def _bp_call(p, X):
    from toqito.matrix_props.is_block_positive import is_block_positive
    from vt.contract import Undecided

    import numpy as np

    np.random.seed(p.get("seed", 0) % (2**31))
    dA, dB = p["dims"]
    f = p.get("dimform", "list")
    dim = [int(dA), int(dB)] if f == "list" else (int(dA) if f == "scalar" else None)
    try:
        return is_block_positive(X, p["k"], dim, p.get("effort", 2))
    except RuntimeError as e:
        raise Undecided("is_block_positive gave up (documented RuntimeError): %s" % str(e)[:80])
    except ValueError as e:
        if "Numerical problems" in str(e):
            raise Undecided("is_block_positive: SDP solver status not optimal")
        raise


def bp_accepts(p):
    """is_block_positive is not False on operators that are k-block positive by a margin"""
    from vt.contract import Violation

    X, truth = _bp_input(p)
    res = _bp_call(p, X)
    if isinstance(res, BaseException):
        raise Violation("is_block_positive RETURNED an exception object (%r) instead of raising it; it is truthy in a boolean context" % (res,))
    if res is False or (not isinstance(res, BaseException) and not bool(res)):
        raise Violation("is_block_positive = %r on an operator that is %d-block positive with margin (family %s, dims %s)" % (res, p["k"], p["family"], p["dims"]))


def bp_rejects(p):
    """is_block_positive is not truthy on operators with expectation <= -0.05 on some vector of Schmidt rank <= k"""
    from vt.contract import Violation

    X, truth = _bp_input(p)
    res = _bp_call(p, X)
    if isinstance(res, BaseException):
        raise Violation("is_block_positive RETURNED an exception object (%s) instead of raising it; `if is_block_positive(X)` treats a non-block-positive operator as block positive (family %s, dims %s, k=%d)" % (type(res).__name__, p["family"], p["dims"], p["k"]))
    if bool(res):
        raise Violation("is_block_positive = %r on an operator with a negative expectation (<= -0.05) on a Schmidt-rank-<=%d vector (family %s, dims %s)" % (res, p["k"], p["family"], p["dims"]))


CLAUSES = {
    "neg.closed_form": neg_closed,
    "logneg.closed_form": logneg_closed,
    "neg.mixed_spectrum": neg_mixed,
    "eof.closed_form": eof_closed,
    "conc.closed_form": conc_closed,
    "conc.bell_diagonal": conc_belldiag,
    "srank.vector_count": srank_vector,
    "srank.operator": srank_operator,
    "sd.vector": sd_vector,
    "sd.operator": sd_operator,
    "skvec.closed_form": skvec_closed,
    "l1.closed_form": l1_closed,
    "lu.invariance": lu_invariance,
    "spectrum.closed_form": spectrum_closed,
    "entropy.additive": entropy_additive,
    "isprod.accepts": isprod_accepts,
    "isprod.rejects": isprod_rejects,
    "sknorm.returns_normally": sk_returns,
    "sknorm.upper_ge_known": sk_upper_ge_known,
    "sknorm.lower_le_known": sk_lower_le_known,
    "sknorm.lower_le_product_sup": sk_lower_le_product_sup,
    "sknorm.upper_ge_attained": sk_upper_ge_attained,
    "blockpos.accepts": bp_accepts,
    "blockpos.rejects": bp_rejects,
}
_FN = {
    "neg.closed_form": "negativity",
    "logneg.closed_form": "log_negativity",
    "neg.mixed_spectrum": "negativity",
    "eof.closed_form": "entanglement_of_formation",
    "conc.closed_form": "concurrence",
    "conc.bell_diagonal": "concurrence",
    "srank.vector_count": "schmidt_rank",
    "srank.operator": "schmidt_rank",
    "sd.vector": "schmidt_decomposition",
    "sd.operator": "schmidt_decomposition",
    "skvec.closed_form": "sk_vector_norm",
    "l1.closed_form": "l1_norm_coherence",
    "lu.invariance": "local-unitary invariance",
    "spectrum.closed_form": "von_neumann_entropy",
    "entropy.additive": "von_neumann_entropy",
    "isprod.accepts": "is_product",
    "isprod.rejects": "is_product",
    "sknorm.returns_normally": "sk_operator_norm",
    "sknorm.upper_ge_known": "sk_operator_norm",
    "sknorm.lower_le_known": "sk_operator_norm",
    "sknorm.lower_le_product_sup": "sk_operator_norm",
    "sknorm.upper_ge_attained": "sk_operator_norm",
    "blockpos.accepts": "is_block_positive",
    "blockpos.rejects": "is_block_positive",
}
for _k, _f in CLAUSES.items():
    _f.function = _FN[_k]
    _f.limit = 60

DIMS = [(a, b) for a in (2, 3, 4) for b in (2, 3, 4)]


def _eq(d):
    return "equal-dims" if d[0] == d[1] else "unequal-dims"


def cases(tier, seed):
    thorough = tier == "thorough"
    out = []

    def add(clause, params, ic, nontrivial=True, function=None):
        c = dict(clause=clause, params=params, input_class=ic, nontrivial=nontrivial)
        if function:
            c["function"] = function
        out.append(c)

    profiles = ["equal", "geometric", "generic"]
    seeds = [seed] + ([seed + 1 + i for i in range(6)] if thorough else [])
    # ------------------------------------------------------------------ closed forms on pure states (grid)
    for dA, dB in DIMS:
        d = [dA, dB]
        for r in range(1, min(dA, dB) + 1):
            for prof in profiles:
                for sd_ in seeds if prof == "generic" else [seed]:
                    real = (dA + dB + r) % 2 == 1 and prof == "generic"
                    base = dict(dims=d, r=r, profile=prof, seed=sd_, real=real)
                    nt = r >= 2
                    dimforms = ["list", "scalar"] + (["omitted"] if dA == dB else [])
                    for form in ("col", "flat", "rho"):
                        for df in dimforms:
                            q = dict(base, form=form, dimform=df)
                            add("neg.closed_form", q, "negativity/%s/dim=%s/%s" % (form, df, _eq(d)), nt)
                            add("logneg.closed_form", q, "log_negativity/%s/dim=%s/%s" % (form, df, _eq(d)), nt)
                            if form != "flat":
                                add("eof.closed_form", q, "entanglement_of_formation/%s/dim=%s/%s" % (form, df, _eq(d)), nt)
                    for form in ("col", "flat"):
                        for df in dimforms + ["array"]:
                            q = dict(base, form=form, dimform=df)
                            add("srank.vector_count", q, "schmidt_rank/%s/dim=%s/%s" % (form, df, _eq(d)), nt)
                            add("sd.vector", dict(q, k=0), "schmidt_decomposition/%s/dim=%s/%s" % (form, df, _eq(d)), nt)
                        for df in dimforms:
                            for k in range(1, min(dA, dB) + 1):
                                q = dict(base, form=form, dimform=df, k=k)
                                add("skvec.closed_form", q, "sk_vector_norm/%s/dim=%s/%s" % (form, df, _eq(d)), nt)
                        if prof == "generic":
                            for k in range(1, min(dA, dB) + 1):
                                add("sd.vector", dict(base, form=form, dimform="list", k=k), "schmidt_decomposition/%s/k_param/%s" % (form, _eq(d)), nt)
                    for df in dimforms + ["array"]:
                        q = dict(base, dimform=df)
                        add("srank.operator", q, "schmidt_rank/operator-pure/dim=%s/%s" % (df, _eq(d)), nt)
                        add("sd.operator", q, "schmidt_decomposition/operator-pure/dim=%s/%s" % (df, _eq(d)), nt)
                    for form in ("col", "rho"):
                        add("l1.closed_form", dict(base, form=form), "l1_norm_coherence/%s" % form, True)
                    if dA == 2 and dB == 2:
                        add("conc.closed_form", dict(base), "concurrence/pure", nt)
                    # local-unitary invariance on the same pure states
                    if prof != "equal":
                        for fn, forms in (("negativity", ("col", "rho")), ("log_negativity", ("rho",)), ("entanglement_of_formation", ("col", "rho")), ("schmidt_rank", ("col", "rho")), ("sk_vector_norm", ("col",)), ("purity", ("rho",)), ("von_neumann_entropy", ("rho",)), ("schmidt_coefficients", ("col",))):
                            for form in forms:
                                q = dict(base, fn=fn, form=form, kind="pure")
                                if fn == "sk_vector_norm":
                                    q["k"] = max(1, min(dA, dB) - 1)
                                f = "schmidt_decomposition" if fn == "schmidt_coefficients" else fn
                                add("lu.invariance", q, "%s/pure/%s/%s" % (f, form, _eq(d)), nt, function=f)
                        if dA == 2 and dB == 2:
                            add("lu.invariance", dict(base, fn="concurrence", form="rho", kind="pure"), "concurrence/pure", nt, function="concurrence")
    # ------------------------------------------------------------------ mixed states
    nm = 3 if thorough else 1
    for dA, dB in DIMS:
        d = [dA, dB]
        n = dA * dB
        for rank in sorted({2, n // 2, n}):
            for i in range(nm):
                sd_ = seed + i
                for fn in ("negativity", "log_negativity", "purity", "von_neumann_entropy", "schmidt_rank"):
                    add("lu.invariance", dict(dims=d, fn=fn, kind="mixed", rank=rank, seed=sd_, real=(rank + i) % 2 == 1), "%s/mixed/%s" % (fn, _eq(d)), True, function=fn)
                if dA == 2 and dB == 2:
                    for fn in ("concurrence", "entanglement_of_formation"):
                        add("lu.invariance", dict(dims=d, fn=fn, kind="mixed", rank=rank, seed=sd_), "%s/mixed/two-qubit" % fn, True, function=fn)
                add("l1.closed_form", dict(dims=d, kind="mixed", rank=rank, seed=sd_, real=(rank + i) % 2 == 1), "l1_norm_coherence/mixed", True)
                for df in ["list", "scalar"] + (["omitted"] if dA == dB else []):
                    add("neg.mixed_spectrum", dict(dims=d, rank=rank, seed=sd_, real=(rank + i) % 2 == 1, dimform=df), "negativity/mixed/dim=%s/%s" % (df, _eq(d)), True)
                add("sd.operator", dict(dims=d, kind="mixed", rank=rank, seed=sd_, dimform="list"), "schmidt_decomposition/operator-mixed/dim=list/%s" % _eq(d), True)
        for R in range(1, min(dA, dB) ** 2 + 1):
            if not thorough and R not in (1, 2, 3, min(dA, dB) ** 2):
                continue
            for df in ["list"] + (["omitted"] if dA == dB else []):
                q = dict(dims=d, kind="mixed", R=R, seed=seed, dimform=df)
                add("srank.operator", q, "schmidt_rank/operator-mixed/dim=%s/%s" % (df, _eq(d)), R >= 2)
                add("sd.operator", dict(q, kind="oprank"), "schmidt_decomposition/operator-mixed/dim=%s/%s" % (df, _eq(d)), R >= 2)
            add("lu.invariance", dict(dims=d, fn="schmidt_rank", kind="oprank", R=R, seed=seed), "schmidt_rank/operator-mixed/%s" % _eq(d), R >= 2, function="schmidt_rank")
        for ra in sorted({1, dA}):
            for rb in sorted({2, dB}):
                add("entropy.additive", dict(dims=d, rankA=ra, rankB=rb, seed=seed, real=(ra + rb) % 2 == 0), "von_neumann_entropy/product", True)
    for n in (2, 3, 4, 6, 8, 9, 12, 16):
        for rank in sorted({1, 2, n // 2, n}):
            for prof in ("equal", "generic"):
                for sd_ in seeds if prof == "generic" else [seed]:
                    add("spectrum.closed_form", dict(n=n, rank=rank, profile=prof, seed=sd_, real=(n + rank) % 2 == 0), "von_neumann_entropy/spectrum", rank >= 2)
    for i in range(12 if thorough else 4):
        add("conc.bell_diagonal", dict(seed=seed + i, entangled=i % 2 == 0), "concurrence/bell-diagonal", True)
    # ------------------------------------------------------------------ is_product
    for dA, dB in DIMS:
        d = [dA, dB]
        for kind in ("vec", "op"):
            forms = ("col", "flat") if kind == "vec" else ("mat",)
            for form in forms:
                for df in ["list", "array", "scalar"] + (["omitted"] if dA == dB else []):
                    if kind == "op" and df == "scalar":
                        continue
                    for real in (False, True):
                        q = dict(dims=d, kind=kind, form=form, dimform=df, seed=seed, real=real)
                        ic = "is_product/%s-%s/dim=%s/%s" % (kind, form, df, _eq(d))
                        add("isprod.accepts", dict(q, truth=True), ic, True)
                        add("isprod.rejects", dict(q, truth=False, cut=0), ic, True)
    for dims3 in ([2, 2, 2], [2, 3, 2], [3, 2, 2], [2, 2, 3], [3, 3, 2], [2, 3, 4]) + (([4, 2, 3], [3, 3, 3]) if thorough else ()):
        for kind in ("vec", "op"):
            if kind == "op" and max(dims3) > 3:
                continue
            for df in ("list", "array"):
                q = dict(dims=dims3, kind=kind, form="col" if kind == "vec" else "mat", dimform=df, seed=seed, real=False)
                ic = "is_product/%s/3-party/dim=%s" % (kind, df)
                add("isprod.accepts", dict(q, truth=True), ic, True)
                for cut in (0, 1):
                    add("isprod.rejects", dict(q, truth=False, cut=cut), ic, True)
    # ------------------------------------------------------------------ S(k) operator norm
    for dA, dB in DIMS:
        d = [dA, dB]
        m = min(dA, dB)
        for k in range(1, m + 1):
            for fam in ("shifted-pure", "rank-one", "product-herm", "product-psd", "product-general", "local-diagonal", "diagonal"):
                rs = range(1, m + 1) if fam in ("shifted-pure", "rank-one") else [1]
                for r in rs:
                    for eff in (0, 1):
                        if eff == 1 and fam not in ("shifted-pure", "local-diagonal", "product-psd"):
                            continue  # effort only matters on the PSD path
                        ropt = r if fam == "shifted-pure" else 1
                        kc = "k=min-dim" if k >= m else ("analytic" if fam == "rank-one" else ("k>optimum-rank" if k > ropt else "k<=optimum-rank"))
                        ic = "sk_operator_norm/%s/%s/%s" % (fam, _eq(d), kc)
                        # the randomised lower bound is the fragile part: several RNG draws where it is exercised (PSD input, k below the smaller dimension)
                        nseeds = (4 if thorough else 2) if (kc.startswith("k>") or kc.startswith("k<=")) and fam in ("shifted-pure", "local-diagonal", "diagonal", "product-psd") and eff == 0 else 1
                        for i in range(nseeds):
                            q = dict(dims=d, k=k, family=fam, r=r, r2=max(1, m - r + 1), profile="generic", seed=seed + i, effort=eff, dimform="list")
                            add("sknorm.upper_ge_known", q, ic, True)
                            add("sknorm.lower_le_known", q, ic, True)
                            if kc not in ("k=min-dim", "analytic"):
                                add("sknorm.returns_normally", q, ic, True)
            # operators of norm far from 1 (the bounds scale with the operator norm): non-Hermitian, Hermitian and rank-one families
            for fam in ("product-general", "product-herm", "rank-one"):
                for sc in (3.0, 0.2):
                    q = dict(dims=d, k=k, family=fam, r=1, r2=m, profile="generic", seed=seed, effort=0, dimform="list", scale=sc)
                    ic = "sk_operator_norm/%s/%s/scaled" % (fam, _eq(d))
                    add("sknorm.upper_ge_known", q, ic, True)
                    add("sknorm.lower_le_known", q, ic, True)
            if dA == dB:
                q = dict(dims=d, k=k, family="shifted-pure", r=m, profile="geometric", seed=seed, effort=1, dimform="omitted")
                add("sknorm.upper_ge_known", q, "sk_operator_norm/shifted-pure/dim=omitted", True)
                add("sknorm.lower_le_known", q, "sk_operator_norm/shifted-pure/dim=omitted", True)
            q = dict(dims=d, k=k, family="shifted-pure", r=m, profile="geometric", seed=seed, effort=1, dimform="scalar")
            add("sknorm.upper_ge_known", q, "sk_operator_norm/shifted-pure/dim=scalar/%s" % _eq(d), True)
            add("sknorm.lower_le_known", q, "sk_operator_norm/shifted-pure/dim=scalar/%s" % _eq(d), True)
            for kind in ("psd", "projection", "hermitian", "general"):
                for i in range(3 if thorough else 1):
                    eff = 2 if (k == 1 and dA * dB <= 9 and kind == "psd") else 1
                    add("sknorm.upper_ge_attained", dict(dims=d, k=k, kind=kind, rank=(dA * dB if kind == "psd" else 3), seed=seed + i, effort=eff, dimform="list"), "sk_operator_norm/%s/%s" % (kind, _eq(d)), True)
    # ------------------------------------------------------------------ block positivity
    for dA, dB in DIMS:
        d = [dA, dB]
        m = min(dA, dB)
        for k in range(1, m + 1):
            add("blockpos.accepts", dict(dims=d, k=k, family="psd", r=1, seed=seed), "is_block_positive/psd/%s" % _eq(d), True)
            add("blockpos.rejects", dict(dims=d, k=k, family="negative-product", r=1, seed=seed), "is_block_positive/negative-product/%s" % _eq(d), True)
        eff = 2 if dA * dB <= 9 else 1
        add("blockpos.accepts", dict(dims=d, k=1, family="witness-plus", r=2, profile="equal", delta=0.05, seed=seed, effort=eff), "is_block_positive/witness-plus/%s" % _eq(d), True)
        add("blockpos.rejects", dict(dims=d, k=1, family="witness-minus", r=2, profile="equal", delta=0.05, seed=seed, effort=eff), "is_block_positive/witness-minus/%s" % _eq(d), True)
        if m >= 3:
            # W + delta*I is 2-block positive iff delta >= s0 s1 (= 1/2 for two equal coefficients)
            add("blockpos.rejects", dict(dims=d, k=2, family="witness-k2", r=2, profile="equal", delta=0.2, seed=seed, effort=eff), "is_block_positive/witness-k2/%s" % _eq(d), True)
            add("blockpos.accepts", dict(dims=d, k=2, family="witness-plus", r=2, profile="equal", delta=0.6, seed=seed, effort=eff), "is_block_positive/witness-k2-plus/%s" % _eq(d), True)
    # 2 (x) 4: operators built from PPT-entangled states, where the PPT relaxation is strictly above the S(1)-norm
    for b_ in (0.3, 0.5):
        add("sknorm.lower_le_product_sup", dict(b=b_, seed=seed, effort=1, dimform="list"), "sk_operator_norm/horodecki-2x4/k=1", True)
    return out


# =============================================================================================
# deductive part (prover side) and its replay clauses
# =============================================================================================
from props.C14_prove import EXTRA_CLAUSES as _EXTRA  # noqa: E402
from props.C14_prove import prove  # noqa: E402,F401

CLAUSES.update(_EXTRA)
LEVEL = "other"
ENGINES = ["E1-pyvc", "E3-E4-rtc"]
LEVEL_TEXT = 'Mixed. Proved (E1): the matrix handed to LAPACK by schmidt_rank / schmidt_decomposition is the amplitude matrix (or its transpose) for ALL local dimensions; purity and l1_norm_coherence compute their defining formula over uninterpreted library operations (E1-term). Everything else (closed forms on states with prescribed Schmidt data, invariances, is_product, S(k) norms) is a bounded run-time contract check.'
EXPLANATION = LEVEL_TEXT
TECHNIQUE = "VCs from the real AST discharged by z3 (index contract on the amplitude matrix; formula contracts over uninterpreted library operations) + bounded run-time-checked contracts on the real functions"


# =============================================================================================
# frame coverage shared by all properties (E2 obligations for every public function of the anchor files + run-time frame cases)
# =============================================================================================
from props import frame_all as _fa  # noqa: E402
from props.frame_common import frame_generic as _fg, frame_object as _fo  # noqa: E402

CLAUSES.setdefault("frame.generic", _fg)
CLAUSES.setdefault("frame.object", _fo)
_cases_before_frames = cases
_prove_before_frames = globals().get("prove")


def cases(tier, seed):  # noqa: F811
    return _cases_before_frames(tier, seed) + _fa.frame_cases(ID, seed)


def prove(tier, seed):  # noqa: F811
    from vt.pyvc.termproofs import merge

    b = _fa.prove_frames(ID, lambda s: _fa.frame_cases(ID, s))(tier, seed)
    if _prove_before_frames is None:
        return b
    return merge(_prove_before_frames(tier, seed), b)


# ---------------------------------------------------------------------------------------------
# additional S(k)-norm cases (main agent): flat Schmidt spectrum plus a small multiple of the identity -- the regime in which the
# realignment-based upper bound (Prop. 4.2.11) is the binding one, so a wrong constant there is visible
_cases_before_sk_extra = cases


def cases(tier, seed):  # noqa: F811
    out = _cases_before_sk_extra(tier, seed)
    for d in ([3, 3], [3, 4], [4, 3], [4, 4]):
        m = min(d)
        for k in range(1, m):
            for c in (0.05, 0.1, 0.02):
                q = dict(dims=d, k=k, family="shifted-pure", r=m, profile="equal", c=c, seed=seed, effort=0, dimform="list")
                ic = "sk_operator_norm/shifted-maxent/%s/k<=optimum-rank" % ("equal-dims" if d[0] == d[1] else "unequal-dims")
                out.append(dict(clause="sknorm.upper_ge_known", params=q, input_class=ic, nontrivial=True))
                out.append(dict(clause="sknorm.lower_le_known", params=q, input_class=ic, nontrivial=True))
    return out

if LEVEL == "exploration":
    LEVEL = "other"
LEVEL_TEXT = LEVEL_TEXT + (" Additionally proved (E2, taint analysis of the real AST): every public function and method in this property's anchor files writes through "
                           "no reference reachable from its arguments (or from self), so results do not depend on call order and callers' arrays / lists are not modified; "
                           "a run-time frame clause replays the same claim on concrete arguments.")
EXPLANATION = LEVEL_TEXT
if "E2-frame" not in globals().get("ENGINES", []):
    ENGINES = list(globals().get("ENGINES", ["E3-E4-rtc"])) + ["E2-frame"]
