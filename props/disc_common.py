"""Executor-side helpers shared by C10, C11, C12 (state discrimination / exclusion / PPT discrimination).

Nothing here is a contract clause.  The module builds ensembles with ground truth by construction from JSON-able
parameters, calls the REAL toqito functions with solver breakdowns mapped to `Undecided`, and builds *certificates*
that are checked by eigenvalues only:

  * a POVM made exactly feasible (projected to PSD, renormalised)  -> an achievable value (rigorous bound on the
    optimum from the feasible side);
  * an operator Y made exactly dual feasible by a shift of the identity -> a rigorous bound from the other side.

Where the candidate operators come from (the function's own output, its complex conjugate, a harness-side solve)
does not matter for soundness: a candidate only counts after its feasibility has been established numerically.
"""
from __future__ import annotations

import itertools

import numpy as np

from vt.contract import Undecided, Violation

TOL = 1e-5  # cvxopt-backed picos SDPs (AGENT_GUIDE)
TOL_CVXPY = 5e-4  # SCS / Clarabel backed cvxpy SDPs
PICOS_SDP_SOLVERS = ("cvxopt", "mosek", "smcp")  # SDP-capable back ends picos 2.6 knows; filtered by availability


def sdp_solvers():
    """every installed solver the picos-based functions accept for an SDP (deterministic order)"""
    try:
        import picos

        av = set(picos.available_solvers())
    except Exception:  # prover interpreter: no picos
        av = {"cvxopt"}
    out = [s for s in PICOS_SDP_SOLVERS if s in av]
    return out or ["cvxopt"]


# ------------------------------------------------------------------------------------------------ calling toqito
def is_solver_breakdown(exc):
    from vt.executor import classify_exception

    return classify_exception(exc) == "undecided"


def call(fn, *a, **k):
    """call the real function; solver breakdown -> Undecided; anything else propagates (returns-normally clause)"""
    try:
        return fn(*a, **k)
    except (TimeoutError, MemoryError, KeyboardInterrupt, Violation, Undecided):
        raise
    except Exception as e:  # noqa: BLE001
        if is_solver_breakdown(e):
            raise Undecided("solver breakdown inside %s: %s: %s" % (getattr(fn, "__name__", "call"), type(e).__name__, str(e)[:120]))
        raise


def call_soft(fn, *a, **k):
    """as `call`, for clauses other than `returns_normally`: an exception raised by the library itself is judged once,
    by the returns_normally clause of the same input class, and makes this clause's sample undecided"""
    try:
        return call(fn, *a, **k)
    except (TimeoutError, MemoryError, KeyboardInterrupt, Violation, Undecided):
        raise
    except Exception as e:  # noqa: BLE001
        raise Undecided("call raised %s (%s); judged by the returns_normally clause" % (type(e).__name__, str(e)[:100]))


def fval(v, what="value"):
    if v is None:
        raise Undecided("%s is None (solver returned no solution)" % what)
    v = complex(v)
    if not np.isfinite(v.real) or abs(v.imag) > 1e-7:
        raise Undecided("%s is %r" % (what, v))
    return float(v.real)


def ops(meas):
    """numpy matrices from picos variables / cvxopt dual matrices"""
    out = []
    for x in meas:
        v = x.value if hasattr(x, "value") else x
        if v is None:
            raise Undecided("a returned operator has no value")
        a = np.array(v, dtype=complex)
        if a.ndim == 0:
            a = a.reshape(1, 1)
        out.append(a)
    return out


# ------------------------------------------------------------------------------------------------ random objects
def haar(d, rng, field="complex"):
    if field == "real":
        g = rng.standard_normal((d, d))
    else:
        g = rng.standard_normal((d, d)) + 1j * rng.standard_normal((d, d))
    q, r = np.linalg.qr(g)
    ph = np.diag(r) / np.abs(np.diag(r))
    return q * ph


def rand_ket(d, rng, field="complex"):
    v = rng.standard_normal(d) + (1j * rng.standard_normal(d) if field == "complex" else 0)
    return v / np.linalg.norm(v)


def rand_dm(d, rng, field="complex", rank=0):
    r = rank or d
    g = rng.standard_normal((d, r)) + (1j * rng.standard_normal((d, r)) if field == "complex" else 0)
    m = g @ g.conj().T
    m = (m + m.conj().T) / 2
    return m / np.trace(m).real


def prior(n, kind, rng):
    """(argument passed to toqito, numeric vector)"""
    if kind == "omitted":
        return None, np.full(n, 1.0 / n)
    if kind == "uniform":
        return [1.0 / n] * n, np.full(n, 1.0 / n)
    if kind in ("zero-first", "zero-middle"):  # one state that is never prepared (exact zero prior), not in the last position
        w = rng.random(n) + 0.25
        w[0 if kind == "zero-first" or n < 3 else n // 2] = 0.0
    elif kind == "skewed":
        w = np.array([2.0 ** (-i) for i in range(n)])
        rng.shuffle(w)
    else:  # random, bounded away from 0
        w = rng.random(n) + 0.25
    w = w / w.sum()
    return [float(x) for x in w], np.array([float(x) for x in w])


def dm(v):
    v = np.asarray(v).reshape(-1)
    return np.outer(v, v.conj())


def represent(kets, rhos, rep, field, dtypes=None):
    """the ensemble in the representation handed to toqito: 1-D arrays, (d,1) columns or density matrices
    (dtypes: per-state numpy dtype kinds 'i' / 'f' / 'c' for ensembles that deliberately mix dtypes)"""
    out = []
    for i, r in enumerate(rhos):
        if rep == "dm-F":  # density matrices stored Fortran-ordered
            out.append(np.asfortranarray(np.array(r).astype(complex if field != "real" else float) if field != "real" else np.array(r).real.astype(float)))
            continue
        if dtypes is not None:
            a = np.array(r) if (rep == "dm" or kets is None) else (np.array(kets[i]).reshape(-1) if rep == "1d" else np.array(kets[i]).reshape(-1, 1))
            k = dtypes[i] if i < len(dtypes) else "c"
            if k == "i":
                a = np.ascontiguousarray(np.rint(a.real).astype(np.int64))
            elif k == "f":
                a = np.ascontiguousarray(a.real.astype(float))
            else:
                a = np.ascontiguousarray(a.astype(complex))
            out.append(a)
            continue
        if rep == "dm" or kets is None:
            a = np.array(r)
        elif rep == "1d":
            a = np.array(kets[i]).reshape(-1)
        elif rep == "col":
            a = np.array(kets[i]).reshape(-1, 1)
        elif rep == "row":
            a = np.array(kets[i]).reshape(1, -1)
        elif rep == "mixed-layout":  # the same ensemble with its kets stored in different vector layouts (1-D, column, row, ...)
            a = (np.array(kets[i]).reshape(-1), np.array(kets[i]).reshape(-1, 1), np.array(kets[i]).reshape(1, -1))[i % 3]
        else:
            raise ValueError(rep)
        if field == "real":
            if np.abs(a.imag).max() > 1e-14 if np.iscomplexobj(a) else False:
                raise ValueError("real field requested for a complex ensemble")
            a = np.ascontiguousarray(a.real.astype(float))
        else:
            a = np.ascontiguousarray(a.astype(complex))
        out.append(a)
    return out


NAMED = ("trine", "bb84", "bb84-3", "bell", "bell-3", "bell-2", "pbr2-boundary", "pbr2-inside", "pbr2-orth", "pbr3-inside", "pbr2-outside", "pbr3-outside", "pbr1-outside")


def named_kets(name):
    """fixed sets built by toqito's own state constructors (part of the property: trine(), pusey_barrett_rudolph())"""
    if name == "trine":
        from toqito.states import trine

        return [np.asarray(v).reshape(-1) for v in trine()]
    if name == "zero-plus":  # the pair used in the docstring examples of state_exclusion / state_distinguishability
        return [np.array([1.0, 0.0]), np.array([1.0, 1.0]) / np.sqrt(2)]
    if name.startswith("bb84"):
        s = 1 / np.sqrt(2)
        k = [np.array([1.0, 0.0]), np.array([0.0, 1.0]), np.array([s, s]), np.array([s, -s])]
        return k if name == "bb84" else [k[0], k[2], k[1]]
    if name.startswith("bell"):
        from toqito.states import bell

        k = [np.asarray(bell(i)).reshape(-1) for i in range(4)]
        return k if name == "bell" else k[: int(name.split("-")[1])]
    if name.startswith("pbr"):
        from toqito.states import pusey_barrett_rudolph

        n = int(name[3])
        bound = 2 * np.arctan(2 ** (1.0 / n) - 1)  # antidistinguishable iff theta >= bound (PBR 2012)
        which = name.split("-")[1]
        theta = {"boundary": bound, "inside": bound + 0.6 * (np.pi / 2 - bound), "orth": np.pi / 2, "outside": 0.6 * bound}[which]
        return [np.asarray(v).reshape(-1) for v in pusey_barrett_rudolph(n, float(theta))]
    raise ValueError(name)


def build(p):
    """ensemble from JSON-able parameters -> dict(states, probs, rhos, pvec, kets, d, n, field)

    kinds: pure | mixed | product-basis | orthogonal | orthogonal-mixed | lindep | pair | orthopair | cluster | cfs-anti | cfs-not |
           superset-trine | identical | named:<name>
    """
    rng = np.random.default_rng([int(p.get("seed", 0)), 7])
    kind = p.get("kind", "pure")
    field = p.get("field", "complex")
    rep = p.get("rep", "1d")
    n, d = int(p.get("n", 2)), int(p.get("d", 2))
    kets = None
    if kind == "pure":
        kets = [rand_ket(d, rng, field) for _ in range(n)]
    elif kind == "mixed":
        rhos = [rand_dm(d, rng, field, int(p.get("rank", 0))) for _ in range(n)]
    elif kind == "orthogonal":
        u = haar(d, rng, field)
        kets = [u[:, i] for i in range(n)]
    elif kind == "orthogonal-mixed":
        u = haar(d, rng, field)
        groups = [list(range(d))[i::n] for i in range(n)]
        rhos = []
        for g in groups:
            b = u[:, g]
            rhos.append(b @ rand_dm(len(g), rng, field) @ b.conj().T)
    elif kind == "lindep":
        # every state lies in the span of the others: n vectors in general position in a k-dimensional subspace, k < n
        k = min(d, n - 1)
        b = haar(d, rng, field)[:, :k]
        kets = [b @ rand_ket(k, rng, field) for _ in range(n)]
    elif kind == "pair":
        c = float(p["overlap"])
        u = haar(d, rng, field)
        ph = np.exp(1j * rng.uniform(0, 2 * np.pi)) if field == "complex" else (1.0 if rng.random() < 0.5 else -1.0)
        kets = [u[:, 0], ph * (c * u[:, 0] + np.sqrt(1 - c * c) * u[:, 1])]
        n = 2
    elif kind == "orthopair":
        u = haar(d, rng, field)
        kets = [u[:, 0], u[:, 1]] + [rand_ket(d, rng, field) for _ in range(n - 2)]
    elif kind == "cluster":
        # states close to a common vector: not antidistinguishable (explicit dual certificate in `cluster_lower_bound`)
        u = haar(d, rng, field)
        eps = float(p.get("eps", 0.12))
        kets = []
        for _ in range(n):
            w = rand_ket(d, rng, field)
            v = u[:, 0] + eps * w
            kets.append(v / np.linalg.norm(v))
    elif kind in ("cfs-anti", "cfs-not"):
        # three pure states; Caves-Fuchs-Schack: antidistinguishable iff x1+x2+x3 < 1 and (x1+x2+x3-1)^2 >= 4 x1 x2 x3
        for _ in range(2000):
            kets = [rand_ket(d, rng, field) for _ in range(3)]
            if kind == "cfs-not":
                t = rng.uniform(0.2, 0.8)
                kets = [kets[0]] + [(1 - t) * kets[0] + t * k for k in kets[1:]]
                kets = [k / np.linalg.norm(k) for k in kets]
            x = [abs(np.vdot(kets[i], kets[j])) ** 2 for i, j in ((0, 1), (0, 2), (1, 2))]
            s = sum(x)
            anti = (s < 1 - 0.05) and ((s - 1) ** 2 >= 4 * x[0] * x[1] * x[2] + 0.02)
            notanti = (s > 1 + 0.05) or ((s - 1) ** 2 <= 4 * x[0] * x[1] * x[2] - 0.02)
            if (kind == "cfs-anti" and anti) or (kind == "cfs-not" and notanti):
                break
        else:
            raise Undecided("no CFS triple with margin found")
        n = 3
    elif kind == "superset-trine":
        base = named_kets("trine")
        u = haar(2, rng, field)
        kets = [u @ k for k in base] + [rand_ket(2, rng, field) for _ in range(n - 3)]
        d = 2
    elif kind == "product-basis":
        # n members of a locally rotated product basis of C^da (x) C^db: perfectly distinguishable by a product measurement
        da, db = int(p["da"]), int(p["db"])
        ua, ub = haar(da, rng, field), haar(db, rng, field)
        idx = [(a, b) for a in range(da) for b in range(db)]
        pick = rng.permutation(len(idx))[:n]
        kets = [np.kron(ua[:, idx[j][0]], ub[:, idx[j][1]]) for j in pick]
        d = da * db
    elif kind == "mixed-dtype":
        # the ensemble a user types in: an integer basis ket first, then a real superposition, then complex ones -- three numpy dtypes in one list
        def e(dim, i):
            v = np.zeros(dim)
            v[i % dim] = 1.0
            return v

        def plus(dim, ph):
            return (e(dim, 0) + ph * e(dim, 1)) / np.sqrt(2)

        if "da" in p:
            da, db = int(p["da"]), int(p["db"])
            d = da * db
            kets = [np.kron(e(da, 0), e(db, 0)), np.kron(e(da, 1), plus(db, 1.0)), np.kron(e(da, 1), plus(db, 1j)), np.kron(e(da, 1), plus(db, -1j))][:max(n, 2)]
        else:
            kets = [e(d, 0), plus(d, 1.0), plus(d, 1j), plus(d, -1j)][:max(n, 2)]
        kets += [rand_ket(d, rng, "complex") for _ in range(n - len(kets))]
        p = dict(p, phases=False, _dtypes=["i", "f"] + ["c"] * (len(kets) - 2))
    elif kind == "identical":
        r0 = rand_dm(d, rng, field, int(p.get("rank", 0)))
        rhos = [r0.copy() for _ in range(n)]
    elif kind.startswith("named:"):
        kets = named_kets(kind.split(":", 1)[1])
        d = kets[0].size
        if p.get("rotate"):
            u = haar(d, rng, field)
            kets = [u @ k for k in kets]
        n = len(kets)
    else:
        raise ValueError(kind)
    if kets is not None:
        kets = [np.asarray(k, dtype=complex).reshape(-1) for k in kets]
        if p.get("phases") and field == "complex":
            kets = [np.exp(1j * rng.uniform(0, 2 * np.pi)) * k for k in kets]
        if p.get("order"):
            kets = [kets[i] for i in p["order"]]
        rhos = [dm(k) for k in kets]
    else:
        rhos = [np.asarray(r, dtype=complex) for r in rhos]
        rep = "dm"
    n = len(rhos)
    probs, pvec = prior(n, p.get("prior", "uniform"), rng)
    states = represent(kets, rhos, rep, field, p.get("_dtypes"))
    return dict(states=states, probs=probs, rhos=rhos, pvec=pvec, kets=kets, d=rhos[0].shape[0], n=n, field=field, rep=rep)


def transformed(ens, u=None, perm=None, field="complex", rep=None):
    """the same ensemble after a common unitary and/or a relabelling"""
    kets, rhos, pvec, probs = ens["kets"], ens["rhos"], ens["pvec"], ens["probs"]
    if u is not None:
        kets = None if kets is None else [u @ k for k in kets]
        rhos = [u @ r @ u.conj().T for r in rhos]
    if perm is not None:
        kets = None if kets is None else [kets[i] for i in perm]
        rhos = [rhos[i] for i in perm]
        pvec = np.array([pvec[i] for i in perm])
        probs = None if probs is None else [probs[i] for i in perm]
    rhos = [(r + r.conj().T) / 2 for r in rhos]
    rep = rep or ens["rep"]
    return dict(states=represent(kets, rhos, rep, field), probs=probs, rhos=rhos, pvec=pvec, kets=kets, d=ens["d"], n=ens["n"], field=field, rep=rep)


# ------------------------------------------------------------------------------------------------ linear algebra
def herm(a):
    return (a + a.conj().T) / 2


def lam_min(a):
    return float(np.linalg.eigvalsh(herm(a))[0])


def lam_max(a):
    return float(np.linalg.eigvalsh(herm(a))[-1])


def trace_norm_h(a):
    return float(np.abs(np.linalg.eigvalsh(herm(a))).sum())


def psd_part(a):
    w, v = np.linalg.eigh(herm(a))
    return (v * np.clip(w, 0, None)) @ v.conj().T


def inv_sqrt_psd(s, cut=1e-12):
    w, v = np.linalg.eigh(herm(s))
    wi = np.where(w > cut, 1.0 / np.sqrt(np.clip(w, cut, None)), 0.0)
    return (v * wi) @ v.conj().T, (v[:, w <= cut] @ v[:, w <= cut].conj().T)


def exact_povm(ms):
    """project to PSD and renormalise so that the operators sum to the identity exactly (up to rounding)"""
    ps = [psd_part(m) for m in ms]
    s = sum(ps)
    r, kernel = inv_sqrt_psd(s)
    out = [herm(r @ m @ r) for m in ps]
    out[0] = out[0] + kernel
    return out


def attained(rhos, pvec, ms):
    return float(sum(pi * np.trace(r @ m).real for pi, r, m in zip(pvec, rhos, ms)))


def povm_defect(ms, d):
    """(largest negative eigenvalue, largest anti-Hermitian part, deviation of the sum from the identity)"""
    neg = max(0.0, max(-lam_min(m) for m in ms))
    ah = max(float(np.abs(m - m.conj().T).max()) for m in ms)
    se = float(np.abs(sum(ms) - np.eye(d)).max())
    return neg, ah, se


def pgm(rhos, pvec):
    s = sum(pi * r for pi, r in zip(pvec, rhos))
    r, kernel = inv_sqrt_psd(s)
    ms = [herm(r @ (pi * rho) @ r) for pi, rho in zip(pvec, rhos)]
    ms[0] = ms[0] + kernel
    return ms


def helstrom(rhos, pvec):
    return 0.5 * (1.0 + trace_norm_h(pvec[0] * rhos[0] - pvec[1] * rhos[1]))


# ------------------------------------------------------------------------------------------------ certificates
def dual_bound(rhos, pvec, ms, sense):
    """sense='max' (discrimination): Y >= p_i rho_i for all i, Tr Y is an upper bound on every POVM's success.
    sense='min' (exclusion): Y <= p_i rho_i for all i, Tr Y is a lower bound on every POVM's error.
    Y = sum_i p_i rho_i M_i, symmetrised, shifted by a multiple of the identity until feasible (checked by eigenvalues)."""
    d = rhos[0].shape[0]
    y = herm(sum(pi * r @ m for pi, r, m in zip(pvec, rhos, ms)))
    if sense == "max":
        delta = max(0.0, max(lam_max(pi * r - y) for pi, r in zip(pvec, rhos)))
        delta *= 1 + 1e-9
        y2 = y + delta * np.eye(d)
        assert all(lam_min(y2 - pi * r) >= -1e-12 for pi, r in zip(pvec, rhos))
        return float(np.trace(y2).real) + 1e-12
    delta = max(0.0, max(lam_max(y - pi * r) for pi, r in zip(pvec, rhos)))
    delta *= 1 + 1e-9
    y2 = y - delta * np.eye(d)
    assert all(lam_min(pi * r - y2) >= -1e-12 for pi, r in zip(pvec, rhos))
    return float(np.trace(y2).real) - 1e-12


def harness_candidates(rhos, pvec, sense):
    """candidate optimal POVM from a harness-side solve with a different modelling layer and solver (cvxpy/Clarabel).
    Only a *source of candidates*: nothing is believed before `bracket` has verified feasibility by eigenvalues."""
    try:
        import cvxpy as cp

        d = rhos[0].shape[0]
        y = cp.Variable((d, d), hermitian=True)
        if sense == "max":
            cons = [y - pi * r >> 0 for pi, r in zip(pvec, rhos)]
            prob = cp.Problem(cp.Minimize(cp.real(cp.trace(y))), cons)
        else:
            cons = [pi * r - y >> 0 for pi, r in zip(pvec, rhos)]
            prob = cp.Problem(cp.Maximize(cp.real(cp.trace(y))), cons)
        prob.solve(solver=cp.CLARABEL)
        ms = [np.array(c.dual_value, dtype=complex) for c in cons]
        if any(m is None or not np.all(np.isfinite(m)) for m in ms):
            return []
        return [ms, [m.conj() for m in ms]]
    except Exception:  # noqa: BLE001
        return []


def bracket(rhos, pvec, candidates, sense, tight=TOL):
    """rigorous (feasible-side bound, dual-side bound) on the optimum.  sense='max': (L, U) with L <= opt <= U, L attained
    by an exact POVM, U the trace of a dual-feasible operator.  sense='min': the same with the roles exchanged:
    L = Tr Y (dual feasible), U attained by an exact POVM."""
    cands = [c for c in candidates if c is not None]
    feas, dual = [], []

    def use(ms):
        try:
            ex = exact_povm(ms)
            if povm_defect(ex, rhos[0].shape[0])[2] > 1e-9 or min(lam_min(m) for m in ex) < -1e-10:
                return
            feas.append(attained(rhos, pvec, ex))
            dual.append(dual_bound(rhos, pvec, ex, sense))
        except (np.linalg.LinAlgError, AssertionError, ValueError):
            return

    for c in cands:
        use(c)
    lo_hi = _lohi(feas, dual, sense)
    if lo_hi is None or lo_hi[1] - lo_hi[0] > tight:
        for c in harness_candidates(rhos, pvec, sense):
            use(c)
        use(pgm(rhos, pvec))
        lo_hi = _lohi(feas, dual, sense)
    if lo_hi is None:
        raise Undecided("no certificate could be built")
    return lo_hi


def _lohi(feas, dual, sense):
    if not feas or not dual:
        return None
    if sense == "max":
        return max(feas), min(dual)
    return max(dual), min(feas)


def cluster_lower_bound(kets, pvec):
    """explicit dual-feasible Y = a|e><e| - b(1 - |e><e|) <= p_i |psi_i><psi_i| for all i, for states close to a common
    vector e; Tr Y = a - (d-1) b is a rigorous lower bound on the exclusion value (found by a grid, checked by eigenvalues)"""
    d = kets[0].size
    s = sum(dm(k) for k in kets)
    w, v = np.linalg.eigh(s)
    e = v[:, -1]
    pe = dm(e)
    q = np.eye(d) - pe
    best = -np.inf
    c2 = min(abs(np.vdot(e, k)) ** 2 for k in kets)
    s2 = max(1 - abs(np.vdot(e, k)) ** 2 for k in kets)
    pmin, pmax = float(min(pvec)), float(max(pvec))
    for fa in (0.2, 0.35, 0.5, 0.65, 0.8):
        a = fa * pmin * c2
        for fb in (0.6, 1.0, 1.5, 2.5, 4.0, 8.0):
            b = fb * pmax * s2 + 1e-12
            y = a * pe - b * q
            if all(lam_min(pi * dm(k) - y) >= 1e-13 for pi, k in zip(pvec, kets)):
                best = max(best, a - (d - 1) * b)
    return best


# ------------------------------------------------------------------------------------------------ bipartite helpers
def locc_value(rhos, pvec, da, db, rng, tries=24):
    """success probability of explicit product / one-way LOCC measurements (a lower bound on the separable, symmetric-
    extension and PPT values): Alice measures in a (Haar or computational) basis, tells Bob the outcome, Bob performs a
    basis measurement with classical post-processing, the pretty-good measurement, or (two states) the Helstrom measurement
    on his conditional ensemble.  Both orders of the parties are tried."""
    best = 0.0
    n = len(rhos)
    for swap in (False, True):
        for t in range(tries):
            dx, dy = (db, da) if swap else (da, db)
            ux = np.eye(dx) if t == 0 else haar(dx, rng)
            uy = np.eye(dy) if t == 0 else haar(dy, rng)
            total_basis, total_adapt = 0.0, 0.0
            for a in range(dx):
                ka = ux[:, a]
                sig = []
                for pi, r in zip(pvec, rhos):
                    r4 = r.reshape(da, db, da, db)
                    if swap:
                        s = np.einsum("b,abcd,d->ac", ka.conj(), r4, ka)
                    else:
                        s = np.einsum("a,abcd,c->bd", ka.conj(), r4, ka)
                    sig.append(pi * herm(s))
                # fixed product basis + classical post-processing
                diag = np.array([[np.vdot(uy[:, b], s @ uy[:, b]).real for b in range(dy)] for s in sig])
                total_basis += float(diag.max(axis=0).sum())
                # Bob adapts
                w = [max(np.trace(s).real, 0.0) for s in sig]
                if sum(w) <= 1e-15:
                    continue
                if n == 2:
                    total_adapt += 0.5 * (w[0] + w[1] + trace_norm_h(sig[0] - sig[1]))
                else:
                    ms = pgm(sig, [1.0] * n)
                    total_adapt += max(attained(sig, [1.0] * n, ms), max(w))
            best = max(best, total_basis, total_adapt)
    return best


def snapshot(states, probs):
    return dict(ident=id(states), n=len(states), ids=[id(s) for s in states], copies=[np.array(s, copy=True) for s in states], dtypes=[s.dtype for s in states], shapes=[s.shape for s in states], probs=None if probs is None else list(probs))


def compare_snapshot(snap, states, probs, who):
    if len(states) != snap["n"]:
        raise Violation("%s changed the length of the caller's list of states (%d -> %d)" % (who, snap["n"], len(states)))
    for i, s in enumerate(states):
        if id(s) != snap["ids"][i]:
            old = snap["shapes"][i]
            raise Violation("%s replaced element %d of the caller's list of states (was an array of shape %s, is now %s of shape %s)" % (who, i, old, type(s).__name__, getattr(s, "shape", None)))
        if s.shape != snap["shapes"][i] or s.dtype != snap["dtypes"][i] or not np.array_equal(s, snap["copies"][i]):
            raise Violation("%s modified the contents of states[%d] in place" % (who, i))
    if probs is not None and list(probs) != snap["probs"]:
        raise Violation("%s modified the caller's list of probabilities" % who)


def pick(seq, *key):
    """deterministic, seed-independent pseudo-random choice (decorrelates the cycled options from the loop structure)"""
    import zlib

    return seq[zlib.crc32(repr((list(seq), key)).encode()) % len(seq)]
