"""Deductive part of C18: call-site preconditions of perm_sign (1-indexed permutation) and permutation_operator inside
symmetric_projection / antisymmetric_projection, for every number of copies p <= 4 (5 thorough) and ALL local dimensions."""


def prove(tier, seed):
    from vt.pyvc import index_proofs as IP
    from vt.pyvc import selfcheck

    S = IP.Sources()
    tasks = IP.instances_C18(tier)
    records, wall = IP.run_instances(tasks, S)
    names = ["symmetric_projection", "antisymmetric_projection"]
    planted = selfcheck.planted("C18", tier, S)
    sc = selfcheck.standard(records, names)
    sc["planted_bugs_all_refuted"] = {"ok": planted["tried"] == planted["refuted"], "detail": planted}
    out = dict(records=records, functions=S.info(names), instances=len(tasks), planted=planted, selfchecks=sc, wall=wall)
    return _bilinear(out, tier)


def _bilinear(out, tier):
    """E1-array/bilinear: the full projectors equal (1/p!) sum_sigma [sgn] W_sigma for all d (p = 2..4; 5 in the thorough tier; lemmas for p = 2, 3; 4 in the thorough tier), and the
    statements of the property as lemmas over that postcondition"""
    from props import C18_bilinear as B

    thorough = tier == "thorough"
    recs = B.records(pmax=5 if thorough else 4) + B.lemmas(pmax=4 if thorough else 3)
    for x in recs:
        if x["status"] != "discharged" and x["function"] in B.REL:
            kind = "sym" if x["function"].startswith("sym") else "asym"
            x["replay"] = [dict(clause=kind + ".explicit", function=x["function"], input_class="%s/replay" % x["function"], params=dict(d=dd, p=pp)) for dd in (2, 3) for pp in (2, 3)]
    out["records"] = out["records"] + recs
    out["instances"] += len({x["instance"] for x in recs})
    pl = B.planted()
    P = out["planted"]
    for k in ("tried", "refuted"):
        P[k] += pl[k]
    for k in ("survivors", "anchors_missing", "detail"):
        P[k] = list(P.get(k, [])) + pl[k]
    per = {}
    for x in recs:
        if x.get("claim"):
            per[x["function"]] = per.get(x["function"], 0) + 1
    out["selfchecks"]["planted_bugs_all_refuted"] = {"ok": P["tried"] == P["refuted"], "detail": P}
    out["selfchecks"]["bilinear_nonzero_claim_obligations"] = {"ok": all(per.get(g, 0) > 0 for g in list(B.REL) + ["(lemma over contracts)"]), "detail": per}
    return out
