"""Deductive part of C18: call-site preconditions of perm_sign (1-indexed permutation) and permutation_operator inside
symmetric_projection / antisymmetric_projection, for every number of copies p <= 4 (5 thorough) and ALL local dimensions."""


def prove(tier, seed):
    from vt.pyvc import index_proofs as IP
    from vt.pyvc import selfcheck

    S = IP.Sources()
    tasks = IP.instances_C18(tier)
    records, wall = IP.run_instances(tasks, S)
    names = ["symmetric_projection", "antisymmetric_projection"]
    planted = selfcheck.planted("C18", tier, S)
    sc = selfcheck.standard(records, names)
    sc["planted_bugs_all_refuted"] = {"ok": planted["tried"] == planted["refuted"], "detail": planted}
    return dict(records=records, functions=S.info(names), instances=len(tasks), planted=planted, selfchecks=sc, wall=wall)
