"""E1-array/bilinear for C06: the Choi-matrix constructors depolarizing, dephasing, reduction proved against their textbook entries for
ALL dimensions and ALL parameter values, and lemmas (through apply_channel's contract) that each returned matrix ACTS by its textbook formula:
   depolarizing(d, p):  X -> (1 - p) Tr(X) I / d + p X
   dephasing(d, p):     X -> (1 - p) diag(X) + p X
   reduction(d, k):     X -> k Tr(X) I - X
(the parameter is a real symbol; the documented range check of the parameter, where there is one, is a bounded clause)."""
from __future__ import annotations

REL = {"depolarizing": "toqito/channels/depolarizing.py", "dephasing": "toqito/channels/dephasing.py", "reduction": "toqito/channels/reduction.py", "max_entangled": "toqito/states/max_entangled.py"}
ASSUMED = [
    "numpy semantics assumed by the bilinear calculus (np.identity, scipy.sparse.identity(..).toarray(), np.diag, @, .conj(), .T, scalar * array, array / scalar, +, -) as textbook index formulas; exact arithmetic",
    "the parameter is a real number and the dimension a positive integer; int(dim) / float coercions are the identity (S-float-dims)",
]


def _sym():
    import sympy as sp

    from vt.pyvc import index_proofs as IP

    (d,) = IP.atoms("d", 1)
    return d, sp.Symbol("p", real=True)


def _delta(a, b):
    from vt.pyvc import bilinear as BL

    return BL.Poly([BL.Term(1, [], [(a, b)])])


def spec_choi(name, d, p):
    """entries of the textbook Choi matrix, J[(i0, i1), (j0, j1)] with the first tensor factor (input space) major"""
    from vt.pyvc import bilinear as BL
    from vt.pyvc import sym

    def g(idx):
        i1, i0 = sym.unflatten(sym.as_num(idx[0], d * d), [d, d], "F")
        j1, j0 = sym.unflatten(sym.as_num(idx[1], d * d), [d, d], "F")
        eye = BL.p_mul(_delta(i0, j0), _delta(i1, j1))  # identity on C^d (x) C^d
        ent = BL.p_mul(_delta(i0, i1), _delta(j0, j1))  # |psi><psi| with psi = sum_i |ii>
        c = lambda v: BL.Poly([BL.Term(v)])
        if name == "depolarizing":
            return BL.p_add(BL.p_mul(c((1 - p) / d), eye), BL.p_mul(c(p), ent))
        if name == "dephasing":
            return BL.p_add(BL.p_mul(c(1 - p), BL.p_mul(eye, _delta(i0, i1))), BL.p_mul(c(p), ent))
        if name == "reduction":
            return BL.p_add(BL.p_mul(c(p), eye), BL.p_mul(c(-1), ent))
        raise ValueError(name)

    return sym.SymArray((d * d, d * d), g, "poly")


def spec_action(name, X, d, p):
    """the textbook action on X"""
    from vt.pyvc import bilinear as BL
    from vt.pyvc import sym

    def g(idx):
        a, b = sym.as_num(idx[0], d), sym.as_num(idx[1], d)
        W = sym.world()
        r = W.fresh_digit("r", d)
        rn = sym.Num([(r, d)])
        tr_eye = BL.Poly([BL.Term(t.coef, t.factors, t.deltas + [(a, b)], t.bound + [(r, d)]) for t in BL.to_poly(X.get((rn, rn))).terms])  # Tr(X) * [a == b]
        c = lambda v: BL.Poly([BL.Term(v)])
        x = BL.to_poly(X.get((a, b)))
        if name == "depolarizing":
            return BL.p_add(BL.p_mul(c((1 - p) / d), tr_eye), BL.p_mul(c(p), x))
        if name == "dephasing":
            return BL.p_add(BL.p_mul(c(1 - p), BL.p_mul(_delta(a, b), x)), BL.p_mul(c(p), x))
        if name == "reduction":
            return BL.p_add(BL.p_mul(c(p), tr_eye), BL.p_mul(c(-1), x))
        raise ValueError(name)

    return sym.SymArray((d, d), g, "poly")


def _sparse_identity(interp, args, kw):
    from vt.pyvc import sym

    return sym.identity(args[0])


def records(over=None):
    from vt import extract
    from vt.pyvc.driver import verify_instance

    S = {k: extract.Source(v) for k, v in REL.items()}
    S.update(over or {})
    d, p = _sym()
    out = []
    for name in ("depolarizing", "dephasing", "reduction"):
        fns = {name: S[name].function(name), "max_entangled": S["max_entangled"].function("max_entangled")}
        recs, ms = verify_instance(name, "%s(dim, parameter) returns the textbook Choi matrix; all dimensions, all parameter values" % name, fns, {"identity": _sparse_identity}, (lambda: ([d, p], {}, [])), (lambda a, k, name=name: spec_choi(name, d, p)), (lambda a, k: [[d, d], [d, d]]), atoms=[d])
        for x in recs:
            x["clean"] = False
            x["engine"] = "E1-array/bilinear"
        out += recs
    for i, x in enumerate(out):
        x["_id"] = "bil.c06.%d" % i
    return out


def lemmas():
    from contracts import index_layer as IL
    from vt.pyvc import bilinear as BL
    from vt.pyvc import index_proofs as IP
    from vt.pyvc import sym
    from vt.pyvc.driver import fine_index
    from vt.pyvc.interp import Ctx

    d, p = _sym()
    out = []
    for name in ("depolarizing", "dephasing", "reduction"):
        sym.reset_world()
        ctx = Ctx([], ())
        try:
            X = IP.X_of((d, d), "X")
            lhs = IL.spec_apply_choi(X, spec_choi(name, d, p), d, d)
            rhs = spec_action(name, X, d, p)
            idx = [fine_index([d], "k")[0], fine_index([d], "x")[0]]
            res = BL.polys_equal(ctx, lhs.get(tuple(idx)), rhs.get(tuple(idx)))
        except Exception as ex:
            res = dict(status="undecided", backend="-", model=None, detail="%s: %s" % (type(ex).__name__, str(ex)[:200]), ms=0.0)
        text = {"depolarizing": "X -> (1-p) Tr(X) I/d + p X", "dephasing": "X -> (1-p) diag(X) + p X", "reduction": "X -> k Tr(X) I - X"}[name]
        out.append(dict(function="(lemma over contracts)", instance="L-act %s" % name, kind="lemma", text="apply_channel(X, %s(d, p)) acts as %s for all d, p, X (constructor's and apply_channel's postconditions composed)" % (name, text), claim=True, clean=False, engine="E1-array/bilinear", path=0, **res))
    for i, x in enumerate(out):
        x["_id"] = "bil.c06.lemma.%d" % i
    return out


MUTANTS = [
    ("depolarizing", "np.identity(dim**2) / dim", "np.identity(dim**2)"),
    ("depolarizing", "(1 - param_p) * np.identity(dim**2) / dim + param_p * (psi @ psi.conj().T)", "param_p * np.identity(dim**2) / dim + (1 - param_p) * (psi @ psi.conj().T)"),
    ("dephasing", "np.diag(np.diag(psi @ psi.conj().T))", "np.identity(dim**2)"),
    ("reduction", "k * identity_matrix.toarray() - psi @ psi.conj().T", "k * identity_matrix.toarray() + psi @ psi.conj().T"),
]


def planted():
    from vt import extract

    out = {"tried": 0, "refuted": 0, "survivors": [], "anchors_missing": [], "detail": []}
    for key, old, new in MUTANTS:
        try:
            m = extract.Source(REL[key]).mutated(old, new)
        except KeyError:
            out["anchors_missing"].append("%s: %s" % (key, old[:50]))
            continue
        bad = [x for x in records({key: m}) if x["status"] != "discharged" and x["function"] == key]
        out["tried"] += 1
        if bad:
            out["refuted"] += 1
            out["detail"].append({"mutant": "%s: %s -> %s" % (key, old[:50], new[:50]), "not_discharged": len(bad), "first": bad[0]["text"][:120]})
        else:
            out["survivors"].append("%s: %s" % (key, old[:60]))
    return out


def replay_cases(function, seed=0):
    from props import C06

    cs = [c for c in C06._cases_bounded("quick", seed) if function in c.get("input_class", "") or function in c.get("clause", "")] if hasattr(C06, "_cases_bounded") else []
    return cs[:40]
