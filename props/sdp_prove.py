"""E1-prog proofs (vt/pyvc/progvc.py, contracts/sdp_c.py): the picos program each SDP builder hands to the solver is the stated
program, and the public entry point dispatches to the stated builder with the stated arguments; n = 2, 3 states (4 thorough)."""

BUILDER_MUTS = {
    "sd": [
        ("sd.min_error_primal", "(probs[i] * dms[i] | measurements[i])", "(dms[i] | measurements[i])"),
        ("sd.min_error_dual", "y_var >> probs[i] * to_density_matrix(vector)", "y_var << probs[i] * to_density_matrix(vector)"),
        ("sd.min_error_dual", "problem.get_constraint(k).dual", "problem.get_constraint(n - 1 - k).dual"),
        ("sd.unambiguous_dual", "lagrangian_variable_big_z[i, i].real >= probs[i]", "lagrangian_variable_big_z[i, i].real >= probs[0]"),
        ("sd.unambiguous_primal", "gram - picos.diag(success_probabilities) >> 0", "gram + picos.diag(success_probabilities) >> 0"),
        ("sd.min_error_primal", "    problem.add_constraint(picos.sum(measurements) == picos.I(dim))\n", "    pass\n"),
    ],
    "se": [
        ("se.min_error_primal", "picos.trace(probs[i] * dms[i] * measurements[i])", "picos.trace(dms[i] * measurements[i])"),
        ("se.min_error_dual", "y_var << probs[i]", "y_var >> probs[i]"),
        ("se.unambiguous_dual", "lagrangian_variables_a[i] * unnormalized_dms[i]", "lagrangian_variables_a[i] * dms[i]"),
        ("se.unambiguous_primal", "problem.add_constraint(inconclusive_measurement >> 0)", "pass"),
        ("se.unambiguous_dual", "1 - picos.trace(lagrangian_variable_big_n)", "picos.trace(lagrangian_variable_big_n)"),
    ],
    "ppt": [
        ("ppt.min_error_dual", "y_var - probs[i] * to_density_matrix(vectors[i])", "y_var + probs[i] * to_density_matrix(vectors[i])"),
        ("ppt.min_error_primal", "problem.add_constraint(picos.sum(measurements) == picos.I(d))", "pass"),
        ("ppt.min_error_dual", "problem.add_list_of_constraints([q_var >> 0 for q_var in q_vars])", "pass"),
    ],
}
DISPATCH_MUTS = {
    "sd": [("state_distinguishability", 'if primal_dual == "primal":\n            return _min_error_primal', 'if primal_dual != "primal":\n            return _min_error_primal'),
           ("state_distinguishability", "probs = [1 / n] * n if probs is None else probs", "probs = [1 / (n + 1)] * n if probs is None else probs")],
    "se": [("state_exclusion", "dim = calculate_vector_matrix_dimension(vectors[0])", "dim = calculate_vector_matrix_dimension(vectors[-1])"),
           ("state_exclusion", 'if strategy == "min_error":', 'if strategy != "min_error":')],
    "ppt": [("ppt_distinguishability", 'if primal_dual == "primal":', 'if primal_dual == "dual":')],
}
PUBLIC = {"sd": "state_distinguishability", "se": "state_exclusion", "ppt": "ppt_distinguishability"}


def prove_sdp(which, replay, tag, tier):
    from contracts.metrics_c import TermContract
    from contracts.sdp_c import SdpContract, dispatch_specs, specs
    from vt import extract
    from vt.pyvc.progvc import AXIOM_TEXT, DispatchContract, ProgEngine

    ns = (2, 3, 4) if tier == "thorough" else (2, 3)
    srcs = {}

    def src_of(rel):
        if rel not in srcs:
            srcs[rel] = extract.Source(rel)
        return srcs[rel]

    def run_builders(n, only=None, override=None):
        out = []
        for key, (rel, fn, params, req, spec, text) in specs(n).items():
            if not key.startswith(which + ".") or (only and key != only):
                continue
            s = override if override is not None else src_of(rel)
            e = ProgEngine(s.function(fn), SdpContract(params, req, spec, text), "%s.%s" % (PUBLIC[which], fn), "%s, %d states, all dimensions / priors" % (key, n), timeout_ms=4000 if override is None else 1200)
            out += e.run()
        return out

    def run_dispatch(n, override=None):
        out = []
        for key, (rel, fn, params, req, spec, text, lb) in dispatch_specs(n).items():
            if fn != PUBLIC[which]:
                continue
            s = override if override is not None else src_of(rel)
            e = ProgEngine(s.function(fn), DispatchContract(TermContract, params, req, spec, text, lb), fn, "%s, %d states" % (key, n), timeout_ms=4000 if override is None else 1200)
            out += e.run()
        return out

    records = []
    for n in ns:
        records += run_builders(n)
    records += run_dispatch(3)
    for i, x in enumerate(records):
        x["_id"] = "%s.%d" % (tag, i)
        x["clean"] = False  # matrices are uninterpreted: a refutation here is a candidate, replayed through the bounded cases
        if x["status"] != "discharged":
            x["replay"] = list(replay)
    planted = {"tried": 0, "refuted": 0, "survivors": [], "anchors_missing": [], "detail": []}
    bm, dm = BUILDER_MUTS[which], DISPATCH_MUTS[which]
    if tier != "thorough":
        bm, dm = bm[:3], dm[:1]
    from contracts.sdp_c import specs as _specs

    for key, old, new in bm:
        rel = _specs(3)[key][0]
        try:
            m = src_of(rel).mutated(old, new)
        except KeyError:
            planted["anchors_missing"].append("%s: %s" % (key, old[:40]))
            continue
        bad = [x for x in run_builders(3, only=key, override=m) if x["status"] != "discharged"]
        planted["tried"] += 1
        if bad:
            planted["refuted"] += 1
            planted["detail"].append({"mutant": "%s: %s -> %s" % (key, old[:50], new[:50]), "not_discharged": len(bad), "first": "%s [%s]" % (bad[0]["text"][:90], bad[0]["status"])})
        else:
            planted["survivors"].append("%s: %s" % (key, old[:50]))
    for fn, old, new in dm:
        rel = [v[0] for v in dispatch_specs(3).values() if v[1] == fn][0]
        try:
            m = src_of(rel).mutated(old, new)
        except KeyError:
            planted["anchors_missing"].append("%s: %s" % (fn, old[:40]))
            continue
        bad = [x for x in run_dispatch(3, override=m) if x["status"] != "discharged"]
        planted["tried"] += 1
        if bad:
            planted["refuted"] += 1
            planted["detail"].append({"mutant": "%s: %s -> %s" % (fn, old[:50], new[:50]), "not_discharged": len(bad), "first": "%s [%s]" % (bad[0]["text"][:90], bad[0]["status"])})
        else:
            planted["survivors"].append("%s: %s" % (fn, old[:50]))
    claims = sum(1 for x in records if x.get("claim"))
    reach = [x for x in records if x["kind"] == "reachability"]
    sc = {
        "nonzero_claim_obligations": {"ok": claims > 0, "detail": {PUBLIC[which]: claims}},
        "preconditions_satisfiable": {"ok": bool(reach) and all(x["status"] == "discharged" for x in reach), "detail": {"instances": len(reach)}},
        "planted_bugs_all_refuted": {"ok": planted["tried"] == planted["refuted"] and not planted["anchors_missing"], "detail": planted},
    }
    functions = []
    seen = set()
    for key, v in list(specs(3).items()):
        if key.startswith(which + "."):
            functions.append(src_of(v[0]).info(v[1]))
            seen.add(v[0])
    for rel in seen:
        functions.append(src_of(rel).info(PUBLIC[which]))
    return dict(records=records, functions=functions, instances=len(reach), planted=planted, selfchecks=sc, axioms=AXIOM_TEXT)


CVX_MUTS = [
    ("hedge.max_primal", 1, "np.identity(2**self._num_reps), x_var >> 0]", "np.identity(2**self._num_reps)]"),
    ("hedge.max_dual", 2, "constraints = [self._pperm @ kron_var @ self._pperm.conj().T >> self._q_a]", "constraints = [self._pperm @ kron_var @ self._pperm.conj().T << self._q_a]"),
    ("clone.dual", 1, "cvxpy.kron(cvxpy.kron(np.eye(2**num_reps), np.eye(2**num_reps)), y_var)", "cvxpy.kron(y_var, cvxpy.kron(np.eye(2**num_reps), np.eye(2**num_reps)))"),
    ("clone.primal", 2, "sys = [elem for elem in sys if elem % num_spaces != 0]", "sys = [elem for elem in sys if elem % num_spaces == 0]"),
    ("hedge.min_primal", 1, "objective = cvxpy.Minimize(cvxpy.real(cvxpy.trace(self._q_a.conj().T @ x_var)))", "objective = cvxpy.Maximize(cvxpy.real(cvxpy.trace(self._q_a.conj().T @ x_var)))"),
    ("clone.primal", 1, "partial_trace(x_var, sys, dim) == np.identity(2**num_reps)", "partial_trace(x_var, sys, dim) << np.identity(2**num_reps)"),
    ("hedge.min_dual", 1, "constraints = [u_var << self._q_a]", "constraints = [u_var >> self._q_a]"),
]


def prove_cvx(replay, tag, tier):
    """QuantumHedging's four programs and optimal_clone's primal / dual program for 1 and 2 repetitions (3 thorough)"""
    from contracts.sdp_c import SdpContract, cvx_specs
    from vt import extract
    from vt.pyvc.progvc import AXIOM_TEXT, ProgEngine

    reps = (1, 2, 3) if tier == "thorough" else (1, 2)
    srcs = {}

    def src_of(rel):
        if rel not in srcs:
            srcs[rel] = extract.Source(rel)
        return srcs[rel]

    def run(n, only=None, override=None):
        out = []
        for key, (rel, fn, params, req, spec, text) in cvx_specs(n).items():
            if only and key != only:
                continue
            s = override if override is not None else src_of(rel)
            e = ProgEngine(s.function(fn), SdpContract(params, req, spec, text), fn, "%s, %d repetition(s), all operators" % (key, n), timeout_ms=4000 if override is None else 1200)
            out += e.run()
        return out

    from vt.pyvc.progvc import InitContract

    def run_init(n, override=None):
        s = override if override is not None else src_of("toqito/nonlocal_games/quantum_hedging.py")
        want = lambda e, n=n: {"_q_a": e["q_a"], "_num_reps": n, "_sys": list(range(0, 2 * n - 1, 2)), "_dim": [2] * (2 * n)}  # noqa: E731
        e = ProgEngine(s.function("QuantumHedging.__init__"), InitContract([("q_a", "arr"), ("num_reps", n)], want, "QuantumHedging(q_a, %d)" % n), "QuantumHedging.__init__", "%d repetition(s)" % n)
        return e.run()

    records = []
    for n in reps:
        records += run(n)
        records += run_init(n)
    for i, x in enumerate(records):
        x["_id"] = "%s.%d" % (tag, i)
        x["clean"] = False
        if x["status"] != "discharged":
            x["replay"] = [c for c in replay if (("hedge" in c.get("clause", "")) == ("Hedging" in x["function"]))][:60] or list(replay)[:60]
    planted = {"tried": 0, "refuted": 0, "survivors": [], "anchors_missing": [], "detail": []}
    for key, n, old, new in (CVX_MUTS if tier == "thorough" else CVX_MUTS[:3]):
        rel = cvx_specs(n)[key][0]
        try:
            m = src_of(rel).mutated(old, new)
        except KeyError:
            planted["anchors_missing"].append("%s: %s" % (key, old[:40]))
            continue
        bad = [x for x in run(n, only=key, override=m) if x["status"] != "discharged"]
        planted["tried"] += 1
        if bad:
            planted["refuted"] += 1
            planted["detail"].append({"mutant": "%s: %s -> %s" % (key, old[:50], new[:50]), "not_discharged": len(bad), "first": "%s [%s]" % (bad[0]["text"][:90], bad[0]["status"])})
        else:
            planted["survivors"].append("%s: %s" % (key, old[:50]))
    try:
        m = src_of("toqito/nonlocal_games/quantum_hedging.py").mutated("self._sys = list(range(0, 2 * self._num_reps - 1, 2))", "self._sys = list(range(1, 2 * self._num_reps, 2))")
        bad = [x for x in run_init(2, override=m) if x["status"] != "discharged"]
        planted["tried"] += 1
        if bad:
            planted["refuted"] += 1
        else:
            planted["survivors"].append("QuantumHedging.__init__: _sys")
    except KeyError:
        planted["anchors_missing"].append("QuantumHedging.__init__: self._sys = ...")
    claims = sum(1 for x in records if x.get("claim"))
    reach = [x for x in records if x["kind"] == "reachability"]
    sc = {
        "nonzero_claim_obligations": {"ok": claims > 0, "detail": {"cvxpy builders": claims}},
        "preconditions_satisfiable": {"ok": bool(reach) and all(x["status"] == "discharged" for x in reach), "detail": {"instances": len(reach)}},
        "planted_bugs_all_refuted": {"ok": planted["tried"] == planted["refuted"] and not planted["anchors_missing"], "detail": planted},
    }
    functions = [src_of(v[0]).info(v[1]) for v in cvx_specs(1).values()] + [src_of("toqito/nonlocal_games/quantum_hedging.py").info("QuantumHedging.__init__")]
    return dict(records=records, functions=functions, instances=len(reach), planted=planted, selfchecks=sc, axioms=AXIOM_TEXT)


METRIC_MUTS = [
    ("cbtn.sdp", "return sdp.value / 2", "return sdp.value"),
    ("cf.sdp", "partial_trace(q_var, [1], [dim, dim])", "partial_trace(q_var, [0], [dim, dim])"),
    ("cbtn.sdp", "[-phi.conj().T, y1]", "[-phi.T, y1]"),
    ("cbtn.sdp", "pc.SpectralNorm(y1.partial_trace(1, dimensions=dim))", "pc.SpectralNorm(y0.partial_trace(1, dimensions=dim))"),
    ("cf.sdp", "cvxpy.bmat([[choi_1, q_var.H], [q_var, choi_2]])", "cvxpy.bmat([[choi_1, q_var], [q_var.H, choi_2]])"),
    ("cf.sdp", "problem.solve(solver=cvxpy.SCS, eps=eps)", "problem.solve(solver=cvxpy.SCS)"),
]


def prove_metrics(replay, tag, tier):
    """the SDP branch of completely_bounded_trace_norm and channel_fidelity: stated program, all dimensions"""
    from contracts.sdp_c import SdpContract, metric_specs
    from vt import extract
    from vt.pyvc.progvc import AXIOM_TEXT, ProgEngine

    S = metric_specs()
    srcs = {k: extract.Source(v[0]) for k, v in S.items()}

    def run(key, override=None):
        rel, fn, params, req, spec, text = S[key]
        s = override if override is not None else srcs[key]
        e = ProgEngine(s.function(fn), SdpContract(params, req, spec, text), fn, "%s, all dimensions" % key, timeout_ms=4000 if override is None else 1200)
        return e.run()

    records = []
    for key in S:
        records += run(key)
    for i, x in enumerate(records):
        x["_id"] = "%s.%d" % (tag, i)
        x["clean"] = False
        if x["status"] != "discharged":
            pre = "cbtn" if "bounded" in x["function"] else "cf"
            x["replay"] = [c for c in replay if c.get("clause", "").startswith(pre)][:60]
    planted = {"tried": 0, "refuted": 0, "survivors": [], "anchors_missing": [], "detail": []}
    for key, old, new in (METRIC_MUTS if tier == "thorough" else METRIC_MUTS[:2]):
        try:
            m = srcs[key].mutated(old, new)
        except KeyError:
            planted["anchors_missing"].append("%s: %s" % (key, old[:40]))
            continue
        bad = [x for x in run(key, override=m) if x["status"] != "discharged"]
        planted["tried"] += 1
        if bad:
            planted["refuted"] += 1
            planted["detail"].append({"mutant": "%s: %s -> %s" % (key, old[:50], new[:50]), "not_discharged": len(bad), "first": "%s [%s]" % (bad[0]["text"][:90], bad[0]["status"])})
        else:
            planted["survivors"].append("%s: %s" % (key, old[:50]))
    claims = sum(1 for x in records if x.get("claim"))
    reach = [x for x in records if x["kind"] == "reachability"]
    sc = {
        "nonzero_claim_obligations": {"ok": claims > 0, "detail": {"metric programs": claims}},
        "preconditions_satisfiable": {"ok": bool(reach) and all(x["status"] == "discharged" for x in reach), "detail": {"instances": len(reach)}},
        "planted_bugs_all_refuted": {"ok": planted["tried"] == planted["refuted"] and not planted["anchors_missing"], "detail": planted},
    }
    return dict(records=records, functions=[srcs[k].info(S[k][1]) for k in S], instances=len(reach), planted=planted, selfchecks=sc, axioms=AXIOM_TEXT)


XOR_MUTS = [
    ("np.real(problem.value) / 4 + 1 / 2\n", "np.real(problem.value) / 2 + 1 / 2\n", (2, 2, 1)),
    ("np.negative(d_mat.conj().T)", "np.negative(d_mat)", (2, 2, 1)),
    ("[cvxpy.diag(u_vec), -d_mat]", "[cvxpy.diag(u_vec), d_mat]", (2, 3, 1)),
    ("** self.reps", "** (self.reps - 1)", (2, 2, 2)),
]


def prove_xor(replay, tag, tier):
    """XORGame.quantum_value hands cvxpy the dual Tsirelson program and returns (1/2 + opt/4)^reps; question counts enumerated"""
    from contracts.sdp_c import SdpContract, xor_specs
    from vt import extract
    from vt.pyvc.progvc import AXIOM_TEXT, ProgEngine

    src = extract.Source("toqito/nonlocal_games/xor_game.py")
    insts = [(2, 2, 1), (2, 3, 1), (3, 2, 1), (3, 3, 1), (2, 2, 2), (3, 2, 2)] + ([(1, 1, 1), (1, 3, 1), (4, 2, 1), (4, 4, 1), (3, 3, 2)] if tier == "thorough" else [])

    def run(inst, override=None):
        X, Y, reps = inst
        rel, fn, params, req, spec, text = xor_specs(X, Y, reps)["xor.quantum_value"]
        s = override if override is not None else src
        e = ProgEngine(s.function(fn), SdpContract(params, req, spec, text), "XORGame.quantum_value", "%d x %d questions, reps = %d, all distributions and predicates" % inst, timeout_ms=4000 if override is None else 1200)
        return e.run()

    records = []
    for inst in insts:
        records += run(inst)
    for i, x in enumerate(records):
        x["_id"] = "%s.%d" % (tag, i)
        x["clean"] = False
        if x["status"] != "discharged":
            x["replay"] = list(replay)[:60]
    planted = {"tried": 0, "refuted": 0, "survivors": [], "anchors_missing": [], "detail": []}
    for old, new, inst in (XOR_MUTS if tier == "thorough" else XOR_MUTS[:2]):
        try:
            m = src.mutated(old, new)
        except KeyError:
            planted["anchors_missing"].append("XORGame.quantum_value: %s" % old[:40])
            continue
        bad = [x for x in run(inst, override=m) if x["status"] != "discharged"]
        planted["tried"] += 1
        if bad:
            planted["refuted"] += 1
            planted["detail"].append({"mutant": "XORGame.quantum_value: %s -> %s" % (old[:50].strip(), new[:50].strip()), "not_discharged": len(bad), "first": "%s [%s]" % (bad[0]["text"][:90], bad[0]["status"])})
        else:
            planted["survivors"].append("XORGame.quantum_value: %s" % old[:50])
    claims = sum(1 for x in records if x.get("claim"))
    reach = [x for x in records if x["kind"] == "reachability"]
    sc = {
        "nonzero_claim_obligations": {"ok": claims > 0, "detail": {"XORGame.quantum_value": claims}},
        "preconditions_satisfiable": {"ok": bool(reach) and all(x["status"] == "discharged" for x in reach), "detail": {"instances": len(reach)}},
        "planted_bugs_all_refuted": {"ok": planted["tried"] == planted["refuted"] and not planted["anchors_missing"], "detail": planted},
    }
    return dict(records=records, functions=[src.info("XORGame.quantum_value")], instances=len(reach), planted=planted, selfchecks=sc, axioms=AXIOM_TEXT)


SEH_MUTS = [
    ("constraints.append(partial_transpose(x_var[k], [sys + 2], dim_list) >> 0)", "constraints.append(partial_transpose(x_var[k], [sys + 1], dim_list) >> 0)", (2, 2, 2, 2, True)),
    ("        constraints.append(np.kron(np.identity(dim_x), sym) @ x_var[k] @ np.kron(np.identity(dim_x), sym) == x_var[k])\n", "", (2, 2, 2, 2, True)),
    ("obj_func.append(probs[k] * cvxpy.trace(item.conj().T @ meas[k]))", "obj_func.append(probs[0] * cvxpy.trace(item.conj().T @ meas[k]))", (2, 2, 3, 1, True)),
    ("    constraints.append(sum(meas) == np.identity(dim_xy))\n", "", (2, 2, 2, 1, True)),
    ("constraints.append(partial_transpose(x_var[k], [0], dim_list) >> 0)", "constraints.append(partial_transpose(x_var[k], [1], dim_list) >> 0)", (2, 2, 3, 1, True)),
    ("sys_list = list(range(2, 2 + level - 1))", "sys_list = list(range(1, 1 + level - 1))", (2, 2, 2, 2, True)),
]


def prove_seh(replay, tag, tier):
    """symmetric_extension_hierarchy builds the stated program; density-matrix input, dim given as a list; (n, d_A, d_B, level) enumerated"""
    from contracts.sdp_c import SdpContract, seh_specs
    from vt import extract
    from vt.pyvc.progvc import AXIOM_TEXT, ProgEngine

    class Contract(SdpContract):
        validation_calls = ("__is_states_valid", "__is_probs_valid")

    src = extract.Source("toqito/state_opt/symmetric_extension_hierarchy.py")
    insts = [(2, 2, 2, 1, True), (2, 2, 2, 2, True), (3, 2, 3, 1, True), (2, 3, 2, 2, False), (3, 2, 2, 2, False), (1, 2, 2, 2, False)]
    if tier == "thorough":
        insts += [(4, 2, 2, 1, True), (2, 2, 3, 2, True), (2, 3, 3, 1, True), (1, 3, 3, 2, False), (2, 2, 2, 3, True)]

    def run(inst, override=None):
        rel, fn, params, req, spec, text = seh_specs(*inst)["seh"]
        s = override if override is not None else src
        e = ProgEngine(s.function(fn), Contract(params, req, spec, text), fn, "%d states on %d x %d, level %d, probs %s" % (inst[0], inst[1], inst[2], inst[3], "given" if inst[4] else "omitted"), timeout_ms=4000 if override is None else 1200)
        return e.run()

    records = []
    for inst in insts:
        records += run(inst)
    for i, x in enumerate(records):
        x["_id"] = "%s.%d" % (tag, i)
        x["clean"] = False
        if x["status"] != "discharged":
            x["replay"] = list(replay)[:60]
    planted = {"tried": 0, "refuted": 0, "survivors": [], "anchors_missing": [], "detail": []}
    for old, new, inst in (SEH_MUTS if tier == "thorough" else SEH_MUTS[:2]):
        try:
            m = src.mutated(old, new)
        except KeyError:
            planted["anchors_missing"].append("symmetric_extension_hierarchy: %s" % old[:40])
            continue
        bad = [x for x in run(inst, override=m) if x["status"] != "discharged"]
        planted["tried"] += 1
        if bad:
            planted["refuted"] += 1
            planted["detail"].append({"mutant": "symmetric_extension_hierarchy: %s -> %s" % (old[:50].strip(), new[:50].strip()), "not_discharged": len(bad), "first": "%s [%s]" % (bad[0]["text"][:90], bad[0]["status"])})
        else:
            planted["survivors"].append("symmetric_extension_hierarchy: %s" % old[:50])
    claims = sum(1 for x in records if x.get("claim"))
    reach = [x for x in records if x["kind"] == "reachability"]
    sc = {
        "nonzero_claim_obligations": {"ok": claims > 0, "detail": {"symmetric_extension_hierarchy": claims}},
        "preconditions_satisfiable": {"ok": bool(reach) and all(x["status"] == "discharged" for x in reach), "detail": {"instances": len(reach)}},
        "planted_bugs_all_refuted": {"ok": planted["tried"] == planted["refuted"] and not planted["anchors_missing"], "detail": planted},
    }
    return dict(records=records, functions=[src.info("symmetric_extension_hierarchy")], instances=len(reach), planted=planted, selfchecks=sc, axioms=AXIOM_TEXT)
