"""C05 -- dual and complementary maps satisfy their defining identities."""
from __future__ import annotations

import itertools

ID = "C05"
TITLE = "dual and complementary maps satisfy their defining identities"
LEVEL = "exploration"
BUDGET = {"quick": 80, "thorough": 900}
ENGINES = ["E3-E4-rtc"]
TECHNIQUE = (
    "run-time-checked contracts on the real functions over a bounded domain (bounded stand-in): the real dual_channel is run on dtype=object arrays of sympy "
    "symbols and <Y, Phi(X)> = <Phi*(Y), X> is checked as a polynomial identity in the entries of X, Y and of the map, per shape configuration; complementary_channel "
    "(np.allclose completeness test) is run on numeric isometries with symbolic / random input operators"
)
LEVEL_TEXT = (
    "Bounded. Nothing is proved for all dimensions. For every enumerated configuration (d_in, d_out in 1..3, rank 1..3, flat / nested / paired / Choi form with every documented "
    "dim form, rectangular matrix spaces) the adjoint identity, dual(dual(Phi)) = Phi and 'Tr Phi*(Y) = <Phi(I), Y>' (unital <=> dual trace preserving) hold as polynomial identities "
    "in all entries, cross-checked at three numeric assignments. complementary_channel: entry (i,j) = Tr(K_i rho K_j^dagger) as a polynomial identity in rho for exactly representable "
    "(dyadic) Kraus families and to 1e-9 on seeded Stinespring isometries (rank 1..d^2, d <= 4; 5 in the thorough tier), trace preservation, spectrum on pure inputs, rejection of non-TP / non-square families."
)
RULE = (
    "deterministic grid: (d_in, d_out) in {1,2,3}^2 x rank {1,2,3} x forms {flat, [[K],..], [[K1..Kr]], pairs, Choi(dim list / 2x2 / omitted)} x {CP, non-CP} with symbolic entries, "
    "the same grid up to dimension 4 with seeded real and complex entries; complementary channel: d in 1..4, every rank 1..d^2 (capped), real and complex isometries, "
    "dyadic families (Pauli mixtures, amplitude-damping-like partial isometries). non-trivial = not all dimensions equal to 1; distinct = distinct (clause, parameters)."
)
EXPLANATION = LEVEL_TEXT
TRUSTED = [
    "sympy: expand() is a canonical form for polynomials in symbols and their conjugates (zero test); exact floats are treated as rationals",
    "numpy object-dtype arithmetic performs the same index operations as numeric dtypes; checked per configuration by re-running the real function at three numeric assignments",
    "complementary_channel tests completeness with np.allclose, which fails on symbolic entries: its Kraus operators are numeric (exact dyadic families for the polynomial identity in rho, random isometries with tolerance 1e-9)",
    "the spectral clause uses numpy eigvalsh / svd on both sides (floating point, tolerance 1e-9 after sorting)",
    "the map returned by dual_channel is read with the documented meaning of each representation form (props/chan_util.py: interpret, ref_choi_apply) and, in numeric modes, additionally through the real apply_channel",
    "dimensions are bounded (<= 3 symbolic, <= 5 numeric)",
]
ASSUMPTIONS = TRUSTED


# =============================================================================================
# executor side
# =============================================================================================
def _build(ent, p):
    """(A, B, phi, J, spaces, dims_arg)"""
    from props import chan_util as U

    ri, ci, xo, yo = U.spaces(p)
    form = p["form"]
    if form == "choi-arbitrary":
        J = ent.mat("J", (ri * xo, ci * yo))
        A = B = None
        phi = J
    else:
        A, B = U.kraus_entries(ent, p)
        J = U.ref_choi(A, B)
        phi = J if form == "choi" else U.as_form(A, B, form)
    return A, B, phi, J, (ri, ci, xo, yo)


def _dims_arg(p, ri, ci, xo, yo):
    df = p.get("dimform", "auto")
    if df == "auto":
        if (ri, xo) != (ci, yo):
            return [[ri, xo], [ci, yo]]
        return None if ri == xo else [ri, xo]
    if df == "omitted":
        return None
    if df == "list":
        return [ri, xo]
    if df == "2x2":
        return [[ri, xo], [ci, yo]]
    if df == "int":
        return int(ri)
    raise ValueError(df)


def _act(rep, Y, shape_in, shape_out):
    """action of a returned representation on Y, by the documented meaning of the form (reference, not apply_channel)"""
    import numpy as np

    from props import chan_util as U

    if isinstance(rep, list):
        A, B = U.interpret(rep)
        return U.ref_apply(A, B, Y)
    (ri, ci), (xo, yo) = shape_in, shape_out
    return U.ref_choi_apply(np.asarray(rep), Y, ri, ci, xo, yo)


def _call_dual(phi, p, ri, ci, xo, yo):
    from toqito.channel_ops import dual_channel

    if isinstance(phi, list):
        return dual_channel(phi)
    d = _dims_arg(p, ri, ci, xo, yo)
    return dual_channel(phi) if d is None else dual_channel(phi, d)


def dual_adjoint(p):
    """<Y, Phi(X)> == <Phi*(Y), X> for the map returned by dual_channel, which keeps the representation form"""
    import numpy as np

    from props import chan_util as U
    from vt.contract import Violation

    def body(ent):
        A, B, phi, J, (ri, ci, xo, yo) = _build(ent, p)
        X = ent.mat("X", (ri, ci))
        Y = ent.mat("Y", (xo, yo))
        D = _call_dual(phi, p, ri, ci, xo, yo)
        if isinstance(phi, list) != isinstance(D, list):
            raise Violation("dual_channel changed the representation: %s -> %s" % (type(phi).__name__, type(D).__name__))
        if not isinstance(D, list) and np.asarray(D).shape != (xo * ri, yo * ci):
            raise Violation("dual Choi matrix has shape %s, a map M_{%d,%d} -> M_{%d,%d} needs %s" % (np.asarray(D).shape, xo, yo, ri, ci, (xo * ri, yo * ci)))
        PX = U.ref_choi_apply(J, X, ri, ci, xo, yo)
        DY = _act(D, Y, (xo, yo), (ri, ci))
        out = [("<Phi*(Y), X> against <Y, Phi(X)>  (%s)" % p["form"], np.array([U.hs(DY, X)], dtype=object if ent.mode == "sym" else complex), np.array([U.hs(Y, PX)], dtype=object if ent.mode == "sym" else complex))]
        one_column = (not isinstance(D, list)) and np.asarray(D).ndim == 2 and np.asarray(D).shape[1] == 1
        if ent.mode != "sym" and one_column:
            # apply_channel mis-reads a one-column Choi matrix (known finding F-04e, property C04): the dual is judged through the reference action only
            out.append(("Phi*(Y) entrywise (reference action; apply_channel not used for a one-column Choi matrix, F-04e)", DY, _adjoint_action(J, Y, ri, ci, xo, yo)))
        elif ent.mode != "sym":
            from toqito.channel_ops import apply_channel

            DY2 = apply_channel(Y, D)
            out.append(("apply_channel(Y, dual_channel(Phi)) against the adjoint by definition", DY2, _adjoint_action(J, Y, ri, ci, xo, yo)))
        else:
            out.append(("Phi*(Y) entrywise", DY, _adjoint_action(J, Y, ri, ci, xo, yo)))
        return out

    from props import chan_util as U2

    return U2.run_modes(p, body)


def _adjoint_action(J, Y, ri, ci, xo, yo):
    """Phi*(Y)[i,j] = sum_{a,b} conj(J[(i,a),(j,b)]) Y[a,b]  (from <Y, Phi(E_ij)> = conj(Phi*(Y)[i,j]) ... written out)"""
    import numpy as np

    J4 = np.asarray(J).reshape(ri, xo, ci, yo).conj()
    return np.tensordot(J4, np.asarray(Y), axes=([1, 3], [0, 1]))


def dual_involution(p):
    """dual(dual(Phi)) acts as Phi; for a Choi matrix it is the same matrix"""
    import numpy as np

    from props import chan_util as U
    from toqito.channel_ops import dual_channel

    def body(ent):
        A, B, phi, J, (ri, ci, xo, yo) = _build(ent, p)
        X = ent.mat("X", (ri, ci))
        D = _call_dual(phi, p, ri, ci, xo, yo)
        if isinstance(D, list):
            DD = dual_channel(D)
        else:
            # the dual maps M_{xo,yo} -> M_{ri,ci}
            q = dict(p)
            DD = _call_dual(D, q, xo, yo, ri, ci)
        out = [("dual(dual(Phi))(X)", _act(DD, X, (ri, ci), (xo, yo)), U.ref_choi_apply(J, X, ri, ci, xo, yo))]
        if not isinstance(DD, list):
            out.append(("dual(dual(J)) == J", np.asarray(DD), np.asarray(J)))
        return out

    return U.run_modes(p, body)


def dual_unital_tp(p):
    """Tr(Phi*(Y)) == <Phi(I), Y> for all Y: Phi is unital exactly when Phi* preserves the trace (square spaces)"""
    import numpy as np

    from props import chan_util as U

    def body(ent):
        A, B, phi, J, (ri, ci, xo, yo) = _build(ent, p)
        Y = ent.mat("Y", (xo, yo))
        D = _call_dual(phi, p, ri, ci, xo, yo)
        eye = np.zeros((ri, ci), dtype=int)
        for i in range(min(ri, ci)):
            eye[i, i] = 1
        PI = U.ref_choi_apply(J, eye, ri, ci, xo, yo)
        DY = _act(D, Y, (xo, yo), (ri, ci))
        tr = 0
        for i in range(min(ri, ci)):
            tr = tr + DY[i, i]
        obj = ent.mode == "sym"
        return [("Tr Phi*(Y) against <Phi(I), Y>", np.array([tr], dtype=object if obj else complex), np.array([U.hs(PI, Y)], dtype=object if obj else complex))]

    return U.run_modes(p, body)


def dual_unital_tp_truth(p):
    """maps unital / non-unital by construction: the dual returned by dual_channel is trace preserving / is not (defects equal to 1e-9)"""
    import numpy as np

    from props import chan_util as U
    from vt.contract import Violation

    din, dout, r = int(p["din"]), int(p["dout"]), int(p["r"])
    rng = np.random.default_rng([p.get("seed", 0), din, dout, r])
    field = p.get("field", "complex")
    cons = p["cons"]
    if cons == "unital":  # adjoints of the Kraus operators of a channel M_dout -> M_din: sum K K^dagger = I_dout
        K = [k.conj().T for k in U.stinespring(rng, dout, din, r, field)]
        A, B = K, K
    elif cons == "mixed-unitary":
        w = rng.random(r) + 0.1
        w /= w.sum()
        K = [np.sqrt(w[i]) * U.haar(rng, din, field) for i in range(r)]
        A, B = K, K
    elif cons == "channel":  # trace preserving, generically not unital
        K = U.stinespring(rng, din, dout, r, field)
        A, B = K, K
    else:  # generic pairs
        A = [U.rnd(rng, (dout, din), field) for _ in range(r)]
        B = [U.rnd(rng, (dout, din), field) for _ in range(r)]
    form = p["form"]
    J = U.ref_choi(A, B)
    phi = J if form == "choi" else U.as_form(A, B, form)
    D = _call_dual(phi, p, din, din, dout, dout)
    unital_defect = U.ref_apply(A, B, np.eye(din)) - np.eye(dout)
    # trace functional of the dual: Tr Phi*(Y) = <T, Y>; Phi* is trace preserving iff T == I
    T = np.zeros((dout, dout), dtype=complex)
    for a in range(dout):
        for b in range(dout):
            E = np.zeros((dout, dout))
            E[a, b] = 1
            T[a, b] = np.conj(np.trace(_act(D, E, (dout, dout), (din, din))))
    tp_defect = T - np.eye(dout)
    U.close(tp_defect, unital_defect, "trace-preservation defect of the dual against the unitality defect of Phi", 1e-9)
    u = float(np.max(np.abs(unital_defect)))
    if cons in ("unital", "mixed-unitary") and u > 1e-9:
        raise Violation("internal: constructed map is not unital (%.3g)" % u)
    return {"unital_defect": u}


# ------------------------------------------------------------------------------------------ complementary channel
def _tp_family(p):
    """square Kraus operators K_1..K_r with sum K^dagger K = I, by construction (optionally stored Fortran-ordered or as strided views)"""
    import numpy as np

    K = _tp_family_c(p)
    lay = p.get("layout")
    if lay == "F":
        return [np.asfortranarray(k) for k in K]
    if lay == "view":
        out = []
        for k in K:
            big = np.zeros((2 * k.shape[0], 2 * k.shape[1]), dtype=k.dtype)
            big[::2, ::2] = k
            out.append(big[::2, ::2])
        return out
    if lay == "dagger-view":  # K given as the conjugate-transpose view of a stored array (what dual_channel returns)
        return [np.ascontiguousarray(k.conj().T).conj().T for k in K]
    return K


def _as_given(K):
    """fresh arrays with the memory layout of the originals (a plain .copy() would make everything C-ordered); strided views are passed as they are"""
    return [k.copy(order="K") if (k.flags.c_contiguous or k.flags.f_contiguous) else k for k in K]


def _tp_family_c(p):
    """square Kraus operators K_1..K_r with sum K^dagger K = I, by construction"""
    import numpy as np

    from props import chan_util as U

    d, r = int(p["d"]), int(p["r"])
    cons = p.get("cons", "stinespring")
    field = p.get("field", "complex")
    rng = np.random.default_rng([p.get("seed", 0), d, r])
    if cons == "stinespring":
        return U.stinespring(rng, d, d, r, field)
    if cons == "pauli-dyadic":  # exactly representable: (1/2)(I, X, Y, Z)
        ops = [np.eye(2), np.array([[0, 1], [1, 0]]), np.array([[0, -1j], [1j, 0]]), np.array([[1, 0], [0, -1]])]
        return [0.5 * o.astype(complex) for o in ops]
    if cons == "shift-dyadic":  # (1/2) * generalised shifts and clocks with entries in {0, +-1, +-i}: 4 unitaries, weights 1/4
        S = np.roll(np.eye(d), 1, axis=0)
        Z = np.diag([(1j) ** (k % 4) for k in range(d)])
        return [0.5 * np.eye(d, dtype=complex), 0.5 * S.astype(complex), 0.5 * Z, 0.5 * (S @ Z)]
    if cons == "partial-isometries":  # K_k = E_{k, pi(k)} blocks: sum K^dagger K = I exactly, 0/1 entries
        out = []
        for k in range(d):
            m = np.zeros((d, d), dtype=complex)
            m[(k + 1) % d, k] = 1
            out.append(m)
        return out
    if cons == "with-zero-operator":  # a Kraus family that lists an identically zero operator (a Pauli channel with a zero-probability term,
        # amplitude damping at gamma = 0): the environment index of the zero operator is still an index of the complementary output
        ks = U.stinespring(rng, d, d, max(r - 1, 1), field)
        pos = 0 if r <= 2 else len(ks) // 2
        return ks[:pos] + [np.zeros((d, d), dtype=ks[0].dtype)] + ks[pos:]
    if cons == "pauli-mixed-dtype":  # the Pauli channel as a user would write it: float I, X, Z and a complex Y (narrower dtype first)
        return [0.5 * np.eye(2), 0.5 * np.array([[0.0, 1.0], [1.0, 0.0]]), 0.5 * np.array([[0, -1j], [1j, 0]]), 0.5 * np.array([[1.0, 0.0], [0.0, -1.0]])]
    if cons == "isometries-mixed-dtype":  # integer 0/1 operator first, then a float one, then complex ones
        out = []
        for k in range(d):
            m = np.zeros((d, d), dtype=(int, float, complex)[min(k, 2)])
            m[(k + 1) % d, k] = 1
            out.append(m)
        # rotate the last two by a phase / a real rotation so that the wider dtypes carry information an integer array cannot hold
        if d >= 2:
            out[-1] = out[-1] * np.exp(0.7j) if out[-1].dtype == complex else out[-1]
        if d >= 3:
            c, s_ = np.cos(0.3), np.sin(0.3)
            a, b = out[1].astype(complex), out[2]
            out[1], out[2] = c * a + s_ * b, -s_ * a + c * b
        return out
    if cons == "unitary":
        return [U.haar(rng, d, field)]
    if cons == "unitary-mixture":  # r unitaries with weights w_k (a random-unitary channel): r may exceed d^2, the description is then not minimal
        w = rng.random(r) + 0.2
        w = w / w.sum()
        return [np.sqrt(w[k]) * U.haar(rng, d, field) for k in range(r)]
    raise ValueError(cons)


def comp_entry(p):
    """entry (i, j) of the complementary channel's output on rho equals Tr(K_i rho K_j^dagger)"""
    import numpy as np

    from props import chan_util as U
    from toqito.channel_ops import complementary_channel
    from vt.contract import Violation

    K = _tp_family(p)
    d, r = K[0].shape[0], len(K)
    C = complementary_channel(_as_given(K))
    if not isinstance(C, list) or len(C) != d:
        raise Violation("complementary_channel returned %d operators for dimension %d (one per row is documented)" % (len(C) if isinstance(C, list) else -1, d))
    for c in C:
        if np.asarray(c).shape != (r, d):
            raise Violation("complementary Kraus operator of shape %s, expected (%d, %d)" % (np.asarray(c).shape, r, d))
    C = [np.asarray(c) for c in C]

    def body(ent):
        rho = ent.mat("rho", (d, d))
        got = U.ref_apply(C, C, rho)
        exp = np.empty((r, r), dtype=object if ent.mode == "sym" else complex)
        for i in range(r):
            for j in range(r):
                M = np.dot(np.dot(K[i], rho), K[j].conj().T)
                t = 0
                for a in range(d):
                    t = t + M[a, a]
                exp[i, j] = t
        return [("complementary channel output entries", got, exp)]

    # exact (dyadic) families: exact polynomial identity in rho; random isometries: float coefficients, 1e-12 per coefficient
    info = U.run_modes(p, body, coeff_tol=0.0 if p.get("cons") in ("pauli-dyadic", "shift-dyadic", "partial-isometries") else 1e-12)
    if p.get("entries") != "sym":
        from toqito.channel_ops import apply_channel

        rng = np.random.default_rng(p.get("seed", 0) + 5)
        rho = U.density(rng, d)
        exp = np.array([[np.trace(K[i] @ rho @ K[j].conj().T) for j in range(r)] for i in range(r)])
        U.close(apply_channel(rho, C), exp, "apply_channel(rho, complementary_channel(K)) entries", 1e-9)
    return info


def comp_trace(p):
    """the complementary map is trace preserving: sum C^dagger C = I, Tr Phi^c(rho) = Tr rho"""
    import numpy as np

    from props import chan_util as U
    from toqito.channel_ops import complementary_channel

    K = _tp_family(p)
    d = K[0].shape[0]
    C = [np.asarray(c) for c in complementary_channel(_as_given(K))]
    U.close(sum(c.conj().T @ c for c in C), np.eye(d), "sum C_k^dagger C_k", 1e-9)
    rng = np.random.default_rng(p.get("seed", 0) + 3)
    X = U.rnd(rng, (d, d), "complex")
    U.close(np.array([np.trace(U.ref_apply(C, C, X))]), np.array([np.trace(X)]), "Tr Phi^c(X)", 1e-9)


def comp_spectrum(p):
    """on a pure input the outputs of Phi and of its complementary channel have the same non-zero spectrum"""
    import numpy as np

    from props import chan_util as U
    from toqito.channel_ops import complementary_channel
    from vt.contract import Violation

    K = _tp_family(p)
    d, r = K[0].shape[0], len(K)
    C = [np.asarray(c) for c in complementary_channel(_as_given(K))]
    rng = np.random.default_rng(p.get("seed", 0) + 11)
    for t in range(3):
        psi = U.rnd(rng, (d, 1), "complex")
        psi /= np.linalg.norm(psi)
        rho = psi @ psi.conj().T
        out = U.herm(np.asarray(U.ref_apply(K, K, rho), dtype=complex))
        outc = U.herm(np.asarray(U.ref_apply(C, C, rho), dtype=complex))
        e1 = np.sort(np.linalg.eigvalsh(out))[::-1]
        e2 = np.sort(np.linalg.eigvalsh(outc))[::-1]
        n = max(len(e1), len(e2))
        e1 = np.concatenate([e1, np.zeros(n - len(e1))])
        e2 = np.concatenate([e2, np.zeros(n - len(e2))])
        if np.max(np.abs(e1 - e2)) > 1e-9:
            raise Violation("pure input: spectrum of Phi(psi) %s, of the complementary output %s" % (np.round(e1, 6), np.round(e2, 6)))


def comp_frame(p):
    """the caller's Kraus operators are not modified"""
    import numpy as np

    from toqito.channel_ops import complementary_channel
    from vt.contract import Violation

    K = _tp_family(p)
    K0 = [k.copy() for k in K]
    complementary_channel(K)
    for a, b in zip(K, K0):
        if not np.array_equal(a, b):
            raise Violation("complementary_channel modified its argument")


def comp_rejects(p):
    """documented ValueError: families violating the completeness relation by a margin, non-square or mixed-size operators, empty list"""
    import numpy as np

    from props import chan_util as U
    from toqito.channel_ops import complementary_channel
    from vt.contract import Violation

    what = p["what"]
    d = int(p.get("d", 2))
    rng = np.random.default_rng([p.get("seed", 0), d])
    if what == "non-tp":
        K = [k * (1.0 + float(p.get("margin", 0.05))) for k in U.stinespring(rng, d, d, int(p.get("r", 2)))]
    elif what == "non-square":
        K = U.stinespring(rng, d, d + 1, 2)
    elif what == "mixed-size":
        K = [np.eye(d) / np.sqrt(2), np.eye(d + 1) / np.sqrt(2)]
    elif what == "empty":
        K = []
    else:
        raise ValueError(what)
    try:
        complementary_channel(K)
    except ValueError:
        return
    raise Violation("complementary_channel accepted a %s Kraus family (documented: ValueError)" % what)


CLAUSES = {
    "dual.adjoint": dual_adjoint,
    "dual.involution": dual_involution,
    "dual.unital_tp": dual_unital_tp,
    "dual.unital_tp_truth": dual_unital_tp_truth,
    "comp.entry": comp_entry,
    "comp.trace": comp_trace,
    "comp.spectrum": comp_spectrum,
    "comp.frame": comp_frame,
    "comp.rejects": comp_rejects,
}
for _k, _f in CLAUSES.items():
    _f.function = "dual_channel" if _k.startswith("dual") else "complementary_channel"
    _f.limit = 60


def cases(tier, seed):
    from props.chan_util import forms_for

    thorough = tier == "thorough"
    out = []

    def add(clause, params, ic, nontrivial=True):
        # the 1 -> 1 dimensional map as a 1x1 Choi matrix is one input class of its own (see findings/C05.md)
        if clause.startswith("dual") and str(params.get("form", "")).startswith("choi") and params.get("din") == 1 and params.get("dout") == 1:
            ic = "dual_channel/choi/1x1-matrix"
        out.append(dict(clause=clause, params=params, input_class=ic, nontrivial=nontrivial))

    def dk(din, dout):
        return "equal" if din == dout else "unequal"

    def choi_dimforms(din, dout):
        return ["omitted", "list", "2x2", "int"] if din == dout else ["list", "2x2"]

    # ---------------- dual_channel, symbolic entries --------------------------------------------------------------
    for din, dout in itertools.product((1, 2, 3), repeat=2):
        for r in (1, 2, 3):
            nt = not (din == dout == r == 1)
            for kind in ("cp", "noncp"):
                for form in forms_for(kind, r):
                    base = dict(din=din, dout=dout, r=r, kind=kind, form=form, entries="sym", seed=seed)
                    add("dual.adjoint", base, "dual_channel/%s/%s/%s/sym" % (form, kind, dk(din, dout)), nt)
                    if r <= 2 or form == "row" or thorough:
                        add("dual.involution", base, "dual_channel/%s/%s/%s/sym" % (form, kind, dk(din, dout)), nt)
                        add("dual.unital_tp", base, "dual_channel/%s/%s/%s/sym" % (form, kind, dk(din, dout)), nt)
                if r <= 2 or thorough:
                    for df in choi_dimforms(din, dout):
                        base = dict(din=din, dout=dout, r=r, kind=kind, form="choi", dimform=df, entries="sym", seed=seed)
                        add("dual.adjoint", base, "dual_channel/choi/%s/%s/dim-%s/sym" % (kind, dk(din, dout), df), nt)
        for df in choi_dimforms(din, dout):
            base = dict(din=din, dout=dout, r=0, form="choi-arbitrary", dimform=df, entries="sym", seed=seed)
            add("dual.adjoint", base, "dual_channel/choi-arbitrary/%s/dim-%s/sym" % (dk(din, dout), df), din * dout > 1)
            add("dual.involution", base, "dual_channel/choi-arbitrary/%s/dim-%s/sym" % (dk(din, dout), df), din * dout > 1)
            add("dual.unital_tp", base, "dual_channel/choi-arbitrary/%s/dim-%s/sym" % (dk(din, dout), df), din * dout > 1)
    for rect in ([1, 2, 2, 1], [2, 1, 1, 2], [2, 3, 1, 2], [2, 1, 3, 2], [1, 2, 3, 2], [2, 2, 1, 3], [3, 2, 2, 3]):
        for r in (1, 2):
            base = dict(rect=rect, r=r, kind="noncp", form="pairs", entries="sym", seed=seed)
            add("dual.adjoint", base, "dual_channel/pairs/rect-spaces/sym")
            add("dual.involution", base, "dual_channel/pairs/rect-spaces/sym")
        base = dict(rect=rect, r=0, form="choi-arbitrary", entries="sym", seed=seed)
        add("dual.adjoint", base, "dual_channel/choi-arbitrary/rect-spaces/sym")
        add("dual.involution", base, "dual_channel/choi-arbitrary/rect-spaces/sym")

    # a map M_{a,b} -> M_{a,b} between equal rectangular spaces: its (a^2 x b^2, non-square) Choi matrix needs no `dims`
    for rect in ([2, 3, 2, 3], [1, 2, 1, 2], [3, 2, 3, 2], [2, 1, 2, 1]):
        for ent_ in ("sym", "complex"):
            base = dict(rect=rect, r=0, form="choi-arbitrary", dimform="omitted", entries=ent_, seed=seed)
            add("dual.adjoint", base, "dual_channel/choi-arbitrary/rect-spaces/dim-omitted/%s" % ent_)
            add("dual.involution", base, "dual_channel/choi-arbitrary/rect-spaces/dim-omitted/%s" % ent_)

    # ---------------- dual_channel, numeric ------------------------------------------------------------------------
    top = 5 if thorough else 4
    nseeds = 3 if thorough else 1
    for din, dout in itertools.product(range(1, top + 1), repeat=2):
        for r in (1, 2, 4):
            for field in ("real", "complex"):
                for kind in ("cp", "noncp"):
                    for s in range(nseeds):
                        nt = not (din == dout == r == 1)
                        for form in forms_for(kind, r):
                            base = dict(din=din, dout=dout, r=r, kind=kind, form=form, entries=field, seed=seed + s)
                            add("dual.adjoint", base, "dual_channel/%s/%s/%s/%s" % (form, kind, dk(din, dout), field), nt)
                            if (din + dout + r) % 2 == 1 or thorough:
                                add("dual.involution", base, "dual_channel/%s/%s/%s/%s" % (form, kind, dk(din, dout), field), nt)
                        for df in choi_dimforms(din, dout):
                            base = dict(din=din, dout=dout, r=r, kind=kind, form="choi", dimform=df, entries=field, seed=seed + s)
                            add("dual.adjoint", base, "dual_channel/choi/%s/%s/dim-%s/%s" % (kind, dk(din, dout), df, field), nt)
                            if r == 2 or thorough:
                                add("dual.involution", base, "dual_channel/choi/%s/%s/dim-%s/%s" % (kind, dk(din, dout), df, field), nt)
    for rect in ([2, 3, 4, 2], [3, 2, 2, 4], [1, 4, 2, 2], [4, 1, 3, 3]):
        for field in ("real", "complex"):
            for form in ("pairs", "choi"):
                base = dict(rect=rect, r=3, kind="noncp", form=form, entries=field, seed=seed)
                add("dual.adjoint", base, "dual_channel/%s/rect-spaces/%s" % (form, field))
                add("dual.involution", base, "dual_channel/%s/rect-spaces/%s" % (form, field))
    for din, dout in itertools.product(range(1, 5), repeat=2):
        for cons in ("unital", "mixed-unitary", "channel", "generic"):
            if cons == "mixed-unitary" and din != dout:
                continue
            for r in (1, 2, 3):
                if cons == "unital" and din * r < dout:
                    continue
                if cons == "channel" and dout * r < din:
                    continue
                forms = ["pairs", "choi"] if cons == "generic" else ["flat", "col", "pairs", "choi"]
                for form in forms:
                    for field in ("real", "complex"):
                        add("dual.unital_tp_truth", dict(din=din, dout=dout, r=r, cons=cons, form=form, field=field, seed=seed), "dual_channel/%s/%s/%s" % (form, cons, dk(din, dout)), not (din == dout == 1))

    # ---------------- complementary_channel ------------------------------------------------------------------------
    for d in range(1, top + 1):
        ranks = list(range(1, d * d + 1))
        if not thorough and len(ranks) > 6:
            ranks = [1, 2, 3, d, d * d - 1, d * d]
        for r in sorted(set(ranks)):
            for field in ("real", "complex"):
                for s in range(nseeds):
                    base = dict(d=d, r=r, cons="stinespring", field=field, seed=seed + s)
                    nt = d > 1
                    add("comp.entry", dict(base, entries="complex"), "complementary_channel/stinespring/%s" % field, nt)
                    add("comp.trace", base, "complementary_channel/stinespring/%s" % field, nt)
                    add("comp.spectrum", base, "complementary_channel/stinespring/%s" % field, nt)
                    if d <= 3 and r <= 4 and s == 0:
                        add("comp.entry", dict(base, entries="sym"), "complementary_channel/stinespring/symbolic-rho", nt)
            add("comp.frame", dict(d=d, r=r, cons="stinespring", field="complex", seed=seed), "complementary_channel/frame", d > 1)
        add("comp.entry", dict(d=d, r=1, cons="unitary", entries="complex", seed=seed), "complementary_channel/unitary", d > 1)
        add("comp.spectrum", dict(d=d, r=1, cons="unitary", seed=seed), "complementary_channel/unitary", d > 1)
    # more Kraus operators than d^2 (a non-minimal description): every listed operator is an environment level
    for d, r in ((1, 2), (1, 3), (2, 5), (2, 6), (3, 10)):
        for field in ("real", "complex"):
            base = dict(d=d, r=r, cons="unitary-mixture", field=field, seed=seed)
            for cl in ("comp.entry", "comp.trace", "comp.spectrum"):
                add(cl, dict(base, entries="complex") if cl == "comp.entry" else base, "complementary_channel/more-than-d2-operators/%s" % field)
    add("comp.entry", dict(d=2, r=4, cons="pauli-dyadic", entries="sym", seed=seed), "complementary_channel/dyadic/symbolic-rho")
    for d in (2, 3):
        for lay in ("F", "view", "dagger-view"):
            for cl in ("comp.entry", "comp.trace", "comp.spectrum"):
                add(cl, dict(d=d, r=2, cons="stinespring", entries="complex", field="complex", seed=seed, layout=lay), "complementary_channel/memory-layout-%s" % lay)
    for d in (2, 3):
        for r in (2, 3):
            for cl in ("comp.entry", "comp.trace", "comp.spectrum"):
                add(cl, dict(d=d, r=r, cons="with-zero-operator", entries="complex", field="complex", seed=seed), "complementary_channel/zero-operator-in-family")
    for d in (2, 3, 4):
        for cons in ("pauli-mixed-dtype", "isometries-mixed-dtype"):
            if cons == "pauli-mixed-dtype" and d != 2:
                continue
            for cl in ("comp.entry", "comp.trace", "comp.spectrum"):
                add(cl, dict(d=d, r=4 if cons.startswith("pauli") else d, cons=cons, entries="complex", seed=seed), "complementary_channel/mixed-dtype-family")
    for d in (2, 3, 4):
        for cons in ("shift-dyadic", "partial-isometries"):
            add("comp.entry", dict(d=d, r=4 if cons == "shift-dyadic" else d, cons=cons, entries="sym", seed=seed), "complementary_channel/dyadic/symbolic-rho")
            add("comp.trace", dict(d=d, r=4, cons=cons, seed=seed), "complementary_channel/dyadic")
            add("comp.spectrum", dict(d=d, r=4, cons=cons, seed=seed), "complementary_channel/dyadic")
    for d in (1, 2, 3, 4):
        for margin in (0.05, 0.5, -0.3):
            for r in (1, 2, d * d):
                add("comp.rejects", dict(what="non-tp", d=d, r=r, margin=margin, seed=seed), "complementary_channel/rejects/non-tp")
        add("comp.rejects", dict(what="non-square", d=d, seed=seed), "complementary_channel/rejects/non-square")
        add("comp.rejects", dict(what="mixed-size", d=d, seed=seed), "complementary_channel/rejects/mixed-size")
    add("comp.rejects", dict(what="empty"), "complementary_channel/rejects/empty")
    return out


# =============================================================================================
# frame part: E2 obligations (prover side) and the run-time frame clause (main agent)
# =============================================================================================
from props.C04_prove import prove_c05 as prove  # noqa: E402,F401
from props.C04_prove import frame_cases as _frame_cases  # noqa: E402
from props.frame_common import frame_generic as _frame_generic  # noqa: E402

CLAUSES["frame.generic"] = _frame_generic
_cases_bounded = cases


def cases(tier, seed):  # noqa: F811
    return _cases_bounded(tier, seed) + _frame_cases("C05", seed)


LEVEL = "other"
ENGINES = ["E1-pyvc", "E2-frame", "E3-E4-rtc"]
LEVEL_TEXT = ("Mixed. Proved for ALL dimensions and entries (E1-array with the bilinear extension; the number of Kraus operators 1..3 and the form are enumerated): dual_channel on a Choi "
              "matrix exchanges the tensor factors and conjugates every entry (square and rectangular spaces; channel_dim and swap by contract); on Kraus forms it replaces every operator by "
              "its conjugate transpose and keeps the nesting; complementary_channel returns d operators with C_row[i, c] == K_i[row, c] (symbolic-length loop by its map invariant; the "
              "completeness guard np.allclose(..) is an assumed precondition); and the lemmas <Y, Phi(X)> == <Phi*(Y), X> (Kraus pairs and Choi), dual(dual(J)) == J, and entry (i, j) of the "
              "complementary output == Tr(K_i rho K_j^dagger). Proved (E2): no operation writes through its arguments. NOT proved, bounded only: unital <=> dual trace preserving as a "
              "tolerance verdict, trace preservation / spectrum of the complementary channel, rejection of invalid families, floating-point rounding.")
EXPLANATION = LEVEL_TEXT
TECHNIQUE = ("contracts on the real functions discharged from self-generated verification conditions (E1-array/bilinear: symbolic execution of the real AST, z3 / cvc5 / normal form), "
             "frame clauses by taint analysis (E2), + run-time-checked contracts on symbolic (sympy) and numeric inputs over a bounded domain")
from props.C04_bilinear import ASSUMED as _BIL_ASSUMED  # noqa: E402

ASSUMPTIONS = list(ASSUMPTIONS) + list(_BIL_ASSUMED)
