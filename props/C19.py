"""C19 -- random generators and measurement constructions give valid, reproducible objects."""
from __future__ import annotations

import itertools

ID = "C19"
TITLE = "random generators and measurement constructions give valid reproducible objects"
LEVEL = "other"
BUDGET = {"quick": 80, "thorough": 900}
ENGINES = ["E2-frame", "E3-E4-rtc"]
EXHAUSTIVE = False
TECHNIQUE = (
    "run-time-checked contracts on the real functions over a bounded domain (bounded stand-in): object kinds judged by eigenvalues / singular "
    "values / Gram matrices, reproducibility judged bitwise under interleaved histories touching the global numpy state, pretty good/bad "
    "measurements compared with an independent eigendecomposition formula and bracketed by certified SDP bounds (own cvxpy primal and dual, "
    "each repaired to exact feasibility) or the Helstrom closed form, measure() compared with the Born rule on measurement sets that are "
    "complete by construction"
)
LEVEL_TEXT = (
    "Bounded. Every generator of toqito.rand is called for every dimension 1..6, real/complex, every rank bound k = 1..dim (and None), every Schmidt-rank "
    "bound 0..min(d1,d2) with scalar and list dimensions (all d1, d2 in 1..6), all POVM settings with 1..3 inputs and 1..4 outputs, for seed 0 and seeds derived "
    "from VERIF_SEED, and the advertised kind is checked numerically. Same-seed outputs are compared bitwise after histories (length <= 6) of np.random.seed(k), "
    "np.random.rand(), seeded and unseeded toqito generators; the global numpy state is compared before/after; different seeds must give different objects "
    "(non-degenerate settings only). PGM/PBM: POVM conditions and the defining formula for spanning ensembles of 2..6 pure/mixed, real/complex states in "
    "dimensions 1..6 with uniform/None/random/partly-zero priors; opt^2 <= P_pgm <= opt with opt bracketed by feasibility-checked primal and dual SDP points. "
    "measure(): Born probabilities, sum to one, post-states, for projective, square and rectangular Kraus, and square-root-of-POVM sets. Nothing is proved here; "
    "floating-point results are judged with tolerances."
)
RULE = (
    "deterministic grid over (generator, dimension 1..6, real/complex, rank / Schmidt-rank bound over its whole range, scalar/list dim, POVM settings) x seeds "
    "{0, 4 derived from VERIF_SEED (8 thorough, plus 2^40+3)}; reproducibility: per generator setting 8 one-step histories + 16 (60 thorough) seeded random histories of length 2..6; "
    "ensembles and measurement sets on a (d, n, kind, field, prior) grid with seeded entries; non-trivial = dimension >= 2; distinct = distinct (clause, parameters)."
)
EXPLANATION = LEVEL_TEXT
TRUSTED = [
    "S-det: numpy.random.Generator is a deterministic function of its seed; LAPACK results are deterministic for identical inputs in one single-threaded process (bitwise comparison of same-seed outputs)",
    "tolerances: 1e-7 for LAPACK-level identities (unitarity, PSD, trace, POVM completeness, PGM formula), numerical rank = singular/eigen values above 1e-9 (relative to norm 1), 1e-9 for Born probabilities",
    "SDP optimum is never taken from a solver's reported value: lower bound = value of a POVM made exactly feasible, upper bound = trace of a dual point made exactly feasible; cases whose bracket is wider than 5e-4 are undecided",
    "'different seeds give different objects' is probabilistic; it is only judged for settings whose object space is a continuum (dimension >= 2, >= 2 POVM outcomes)",
    "spanning ensembles are generated with lambda_min(sum p_i rho_i) >= 1e-3 (the PGM is undefined otherwise)",
    "measure(): a list of operators is read as Kraus operators, p_i = Tr(K_i^dagger K_i rho), as documented; POVM sets are passed through their square roots",
    "random_state_vector: scalar dim with 0 < k < dim means two local systems of dimension dim (vector of length dim^2), as in QETLAB; the output may be 1-D or a column",
    "seed=None (OS entropy) is only exercised inside histories and the global-state clause; kind clauses use explicit seeds so that every case is replayable",
]
ASSUMPTIONS = TRUSTED

TOL = 1e-7
TOL_RANK = 1e-9
TOL_SDP = 5e-4

# =============================================================================================
# prover side -- `prove(tier, seed)` (E2: every toqito.rand function has rng: own(seed), modifies nothing) is added HERE
# by the main agent.  Do not define it in the executor section below.
# =============================================================================================
from props.C19_prove import prove  # noqa: E402,F401


# =============================================================================================
# executor side
# =============================================================================================
# ------------------------------------------------------------------------------------------ helpers
def _gen(name):
    import toqito.rand as R

    return getattr(R, name)


def _call_kw(name, args, seed):
    """keyword call of a toqito.rand generator"""
    return _gen(name)(**args, seed=seed)


def _flat(obj):
    """list of ndarrays making up the returned object"""
    import numpy as np

    if isinstance(obj, (list, tuple)):
        return [np.asarray(x) for x in obj]
    return [np.asarray(obj)]


def _identical(a, b):
    import numpy as np

    fa, fb = _flat(a), _flat(b)
    if type(a) is not type(b) or len(fa) != len(fb):
        return False
    return all(x.shape == y.shape and x.dtype == y.dtype and np.array_equal(x, y, equal_nan=True) for x, y in zip(fa, fb))  # non-finite output is the kind clauses' business


def _maxdiff(a, b):
    import numpy as np

    fa, fb = _flat(a), _flat(b)
    if len(fa) != len(fb) or any(x.shape != y.shape for x, y in zip(fa, fb)):
        return float("inf")
    return max([float(np.max(np.abs(x - y))) for x, y in zip(fa, fb) if x.size] or [0.0])


def _herm_dev(M):
    import numpy as np

    return float(np.max(np.abs(M - M.conj().T))) if M.size else 0.0


def _min_eig(M):
    import numpy as np

    H = (M + M.conj().T) / 2
    return float(np.min(np.linalg.eigvalsh(H)))


def _is_real_array(M):
    import numpy as np

    return (not np.iscomplexobj(M)) or float(np.max(np.abs(np.imag(M)))) == 0.0


def _check_square(M, d, what):
    import numpy as np

    from vt.contract import Violation

    M = np.asarray(M)
    if M.shape != (d, d):
        raise Violation("%s has shape %s, expected (%d, %d)" % (what, M.shape, d, d))
    if not np.all(np.isfinite(M)):
        raise Violation("%s has non-finite entries" % what)
    return M


def _check_psd(M, what, tol=TOL):
    from vt.contract import Violation

    hd = _herm_dev(M)
    if hd > tol:
        raise Violation("%s is not Hermitian: max |M - M^dagger| = %.3g" % (what, hd))
    me = _min_eig(M)
    if me < -tol:
        raise Violation("%s is not positive semidefinite: smallest eigenvalue %.6g" % (what, me))


def _num_rank(M):
    import numpy as np

    sv = np.linalg.svd(np.asarray(M), compute_uv=False)
    return int(np.sum(sv > TOL_RANK * max(1.0, float(sv[0]) if sv.size else 1.0)))


# ------------------------------------------------------------------------------------------ kinds
def unitary_kind(p):
    """random_unitary(dim | [dim, dim], is_real, seed): U^dagger U = U U^dagger = I; real (orthogonal) when requested"""
    import numpy as np

    from toqito.rand import random_unitary

    from vt.contract import Violation

    d, real = p["dim"], bool(p["is_real"])
    arg = [d, d] if p.get("dimform") == "list" else d
    U = random_unitary(arg, real, seed=p["seed"]) if p.get("call") != "keywords" else random_unitary(dim=arg, is_real=real, seed=p["seed"])
    what = "random_unitary(%s, is_real=%s, seed=%s)" % (arg, real, p["seed"])
    U = _check_square(U, d, what)
    dev = max(float(np.max(np.abs(U.conj().T @ U - np.eye(d)))), float(np.max(np.abs(U @ U.conj().T - np.eye(d)))))
    if dev > TOL:
        raise Violation("%s is not unitary: max |U^dagger U - I| = %.3g" % (what, dev))
    if real and not _is_real_array(U):
        raise Violation("%s has complex entries although a real (orthogonal) matrix was requested" % what)


def _density_call(p):
    from toqito.rand import random_density_matrix

    d, real, k, metric = p["dim"], bool(p["is_real"]), p.get("k"), p.get("metric", "haar")
    what = "random_density_matrix(%d, %s, %s, %r, seed=%s)" % (d, real, k, metric, p["seed"])
    if p.get("call") == "keywords":
        rho = random_density_matrix(dim=d, is_real=real, k_param=k, distance_metric=metric, seed=p["seed"])
    else:
        rho = random_density_matrix(d, real, k, metric, seed=p["seed"])
    return _check_square(rho, d, what), what


def density_kind(p):
    """random_density_matrix: Hermitian, positive semidefinite, unit trace; real when requested"""
    import numpy as np

    from vt.contract import Violation

    rho, what = _density_call(p)
    _check_psd(rho, what)
    tr = complex(np.trace(rho))
    if abs(tr - 1) > TOL:
        raise Violation("%s has trace %s" % (what, tr))
    if p["is_real"] and not _is_real_array(rho):
        raise Violation("%s has complex entries although is_real=True" % what)


def density_rank_le_k(p):
    """random_density_matrix(.., k_param=k): rank <= k"""
    from vt.contract import Violation

    rho, what = _density_call(p)
    k = p["k"] if p.get("k") is not None else p["dim"]
    r = _num_rank(rho)
    if r > k:
        raise Violation("%s has rank %d > requested bound k_param = %d" % (what, r, k))


def psd_kind(p):
    """random_psd_operator: Hermitian positive semidefinite dim x dim; real when requested"""
    from toqito.rand import random_psd_operator

    from vt.contract import Violation

    d, real = p["dim"], bool(p["is_real"])
    what = "random_psd_operator(%d, %s, seed=%s)" % (d, real, p["seed"])
    M = _check_square(random_psd_operator(d, real, seed=p["seed"]), d, what)
    _check_psd(M, what)
    if real and not _is_real_array(M):
        raise Violation("%s has complex entries although is_real=True" % what)


def basis_kind(p):
    """random_orthonormal_basis: dim vectors of length dim with Gram matrix I; real when requested"""
    import numpy as np

    from toqito.rand import random_orthonormal_basis

    from vt.contract import Violation

    d, real = p["dim"], bool(p["is_real"])
    what = "random_orthonormal_basis(%d, %s, seed=%s)" % (d, real, p["seed"])
    B = random_orthonormal_basis(d, real, seed=p["seed"])
    if len(B) != d:
        raise Violation("%s returned %d vectors, expected %d" % (what, len(B), d))
    vs = [np.asarray(v).reshape(-1) for v in B]
    if any(v.size != d for v in vs):
        raise Violation("%s returned vectors of sizes %s" % (what, [v.size for v in vs]))
    V = np.stack(vs, axis=1)
    dev = float(np.max(np.abs(V.conj().T @ V - np.eye(d))))
    if dev > TOL:
        raise Violation("%s is not orthonormal: max |<v_i, v_j> - delta_ij| = %.3g" % (what, dev))
    if real and not _is_real_array(V):
        raise Violation("%s has complex entries although is_real=True" % what)


def _statevec_call(p):
    import numpy as np

    from toqito.rand import random_state_vector

    from vt.contract import Violation

    dim, real, k = p["dim"], bool(p["is_real"]), p["k"]
    what = "random_state_vector(%s, %s, %d, seed=%s)" % (dim, real, k, p["seed"])
    if p.get("call") == "keywords":
        v = random_state_vector(dim=dim, is_real=real, k_param=k, seed=p["seed"])
    else:
        v = random_state_vector(dim, real, k, seed=p["seed"])
    v = np.asarray(v)
    if isinstance(dim, list):
        local = list(dim)
        n = dim[0] * dim[1]
    elif 0 < k < dim:
        local = [dim, dim]  # scalar dim with a Schmidt-rank bound: two local systems of that dimension
        n = dim * dim
    else:
        local = None
        n = dim
    if v.size != n or not (v.ndim == 1 or (v.ndim == 2 and v.shape[1] == 1)):
        raise Violation("%s has shape %s, expected a vector with %d entries" % (what, v.shape, n))
    return v.reshape(-1), local, what


def statevec_unit(p):
    """random_state_vector: a unit vector of prod(dim) entries; real when requested"""
    import numpy as np

    from vt.contract import Violation

    v, _, what = _statevec_call(p)
    nrm = float(np.linalg.norm(v))
    if not np.isfinite(nrm) or abs(nrm - 1) > TOL:
        raise Violation("%s has norm %.9g" % (what, nrm))
    if p["is_real"] and not _is_real_array(v):
        raise Violation("%s has complex entries although is_real=True" % what)


def statevec_schmidt_rank_le_k(p):
    """random_state_vector(.., k_param=k > 0): Schmidt rank across the two local systems <= k"""
    import numpy as np

    from vt.contract import Violation

    v, local, what = _statevec_call(p)
    k = p["k"]
    if local is None or k <= 0:
        return {"vacuous": True}
    sv = np.linalg.svd(v.reshape(local[0], local[1]), compute_uv=False)
    r = int(np.sum(sv > TOL_RANK))
    if r > k:
        raise Violation("%s has Schmidt rank %d > requested bound %d (Schmidt coefficients %s)" % (what, r, k, np.round(sv, 6).tolist()))
    return {"schmidt_rank": r}


def povm_kind(p):
    """random_povm(dim, num_inputs, num_outputs): shape (dim, dim, inputs, outputs); for every input the elements are PSD and sum to I"""
    import numpy as np

    from toqito.rand import random_povm

    from vt.contract import Violation

    d, ni, no = p["dim"], p["num_inputs"], p["num_outputs"]
    what = "random_povm(%d, %d, %d, seed=%s)" % (d, ni, no, p["seed"])
    P = np.asarray(random_povm(d, ni, no, seed=p["seed"]))
    if P.shape != (d, d, ni, no):
        raise Violation("%s has shape %s, documented (dim, dim, num_inputs, num_outputs) = %s" % (what, P.shape, (d, d, ni, no)))
    if not np.all(np.isfinite(P)):
        raise Violation("%s has non-finite entries" % what)
    for x in range(ni):
        S = np.zeros((d, d), dtype=complex)
        for a in range(no):
            _check_psd(P[:, :, x, a], "%s element [input %d, output %d]" % (what, x, a))
            S += P[:, :, x, a]
        dev = float(np.max(np.abs(S - np.eye(d))))
        if dev > TOL:
            raise Violation("%s: elements for input %d sum to I with max deviation %.3g" % (what, x, dev))


def circulant_kind(p):
    """random_circulant_gram_matrix(dim): real symmetric, circulant, positive semidefinite"""
    import numpy as np

    from toqito.rand import random_circulant_gram_matrix

    from vt.contract import Violation

    d = p["dim"]
    what = "random_circulant_gram_matrix(%d, seed=%s)" % (d, p["seed"])
    G = _check_square(random_circulant_gram_matrix(d, seed=p["seed"]), d, what)
    if not _is_real_array(G):
        raise Violation("%s is not real" % what)
    _check_psd(G, what)
    for i in range(d):
        for j in range(d):
            if abs(G[i, j] - G[(i + 1) % d, (j + 1) % d]) > TOL:
                raise Violation("%s is not circulant: G[%d,%d] = %.9g but G[%d,%d] = %.9g" % (what, i, j, G[i, j], (i + 1) % d, (j + 1) % d, G[(i + 1) % d, (j + 1) % d]))


def states_kind(p):
    """random_states(n, d): n unit column vectors of dimension d"""
    import numpy as np

    from toqito.rand import random_states

    from vt.contract import Violation

    n, d = p["n"], p["dim"]
    what = "random_states(%d, %d, seed=%s)" % (n, d, p["seed"])
    out = random_states(n, d, seed=p["seed"])
    if len(out) != n:
        raise Violation("%s returned %d states" % (what, len(out)))
    for v in out:
        v = np.asarray(v)
        if v.shape != (d, 1):
            raise Violation("%s returned a state of shape %s, documented (d, 1)" % (what, v.shape))
        if abs(float(np.linalg.norm(v)) - 1) > TOL:
            raise Violation("%s returned a state of norm %.9g" % (what, float(np.linalg.norm(v))))


# ------------------------------------------------------------------------------------------ reproducibility
_HISTORY_GENERATORS = [
    ["random_unitary", {"dim": 3}],
    ["random_unitary", {"dim": 2, "is_real": True}],
    ["random_density_matrix", {"dim": 2}],
    ["random_density_matrix", {"dim": 3, "is_real": True, "k_param": 2}],
    ["random_state_vector", {"dim": 3}],
    ["random_state_vector", {"dim": [2, 2], "k_param": 1}],
    ["random_povm", {"dim": 2, "num_inputs": 1, "num_outputs": 2}],
    ["random_psd_operator", {"dim": 2}],
    ["random_orthonormal_basis", {"dim": 2}],
    ["random_circulant_gram_matrix", {"dim": 3}],
    ["random_states", {"n": 2, "d": 2}],
    ["random_ginibre", {"dim_n": 2, "dim_m": 2}],
]


def _run_op(op):
    import numpy as np

    kind = op[0]
    if kind == "npseed":
        np.random.seed(op[1])
    elif kind == "nprand":
        np.random.rand()
    elif kind == "nprandn":
        np.random.randn(op[1])
    elif kind == "npshuffle":
        np.random.permutation(op[1])
    elif kind == "gen":
        _call_kw(op[1], op[2], op[3])
    else:
        raise ValueError("unknown history op %r" % (op,))


def _histories(target, seed, count, rnd):
    """8 one-step histories + `count` random histories of length 2..6"""
    name, args = target
    ones = [
        [["npseed", seed]],
        [["npseed", 0]],
        [["nprand"]],
        [["nprandn", 7]],
        [["gen", name, args, None]],  # the same generator, unseeded
        [["gen", name, args, seed + 1]],  # the same generator, another seed
        [["gen", "random_unitary", {"dim": 3}, seed]],  # another generator with the SAME seed
        [["gen", "random_density_matrix", {"dim": 2}, None]],
    ]
    out = list(ones)
    for _ in range(count):
        h = []
        for _ in range(rnd.randint(2, 6)):
            c = rnd.random()
            if c < 0.2:
                h.append(["npseed", rnd.choice([0, 1, seed, 2**31 - 1, rnd.randrange(10**6)])])
            elif c < 0.35:
                h.append(["nprand"])
            elif c < 0.45:
                h.append(["nprandn", rnd.randint(1, 9)])
            elif c < 0.5:
                h.append(["npshuffle", rnd.randint(2, 6)])
            else:
                g = rnd.choice(_HISTORY_GENERATORS + [[name, args]])
                s = rnd.choice([None, None, seed, seed + 1, 0, rnd.randrange(10**6)])
                h.append(["gen", g[0], g[1], s])
        out.append(h)
    return out


def _reference(name, args, seed):
    """first call; a generator that does not return on this setting is judged by its kind clauses (returns-normally), not here"""
    from vt.contract import Undecided

    try:
        return _call_kw(name, args, seed)
    except Exception as e:  # noqa: BLE001
        raise Undecided("%s(%s, seed=%s) raises %s: %s -- reported by the kind clauses of this generator, reproducibility cannot be judged" % (name, args, seed, type(e).__name__, str(e)[:120]))


def repro_same_seed(p):
    """same seed => bitwise identical object, whatever happened before (histories of <= 6 interleaved calls touching the global
    numpy state, other seeded / unseeded toqito generators, the same generator with other seeds)"""
    import random

    from vt.contract import Violation

    name, args, seed = p["name"], p["args"], p["seed"]
    ref = _reference(name, args, seed)
    again = _call_kw(name, args, seed)
    if not _identical(ref, again):
        raise Violation("%s(%s, seed=%s) called twice in a row gives different objects (max difference %.3g)" % (name, args, seed, _maxdiff(ref, again)))
    rnd = random.Random(p.get("hseed", 0))
    hs = _histories([name, args], seed if isinstance(seed, int) and seed < 2**31 else 5, p.get("histories", 12), rnd)
    for h in hs:
        for op in h:
            _run_op(op)
        got = _call_kw(name, args, seed)
        if not _identical(ref, got):
            raise Violation("%s(%s, seed=%s) differs (max %.3g) from the first call after the history %s" % (name, args, seed, _maxdiff(ref, got), h))
    return {"histories": len(hs)}


def repro_different_seeds(p):
    """different seeds => different objects (only for settings whose object space is a continuum)"""
    from vt.contract import Violation

    name, args, seeds = p["name"], p["args"], p["seeds"]
    outs = [_reference(name, args, seeds[0])] + [_call_kw(name, args, s) for s in seeds[1:]]
    for i in range(len(seeds)):
        for j in range(i + 1, len(seeds)):
            dd = _maxdiff(outs[i], outs[j])
            if not dd > 1e-9:
                raise Violation("%s(%s): seeds %s and %s give the same object (max difference %.3g)" % (name, args, seeds[i], seeds[j], dd))


def repro_global_state(p):
    """a generator call (seeded or not) neither reads nor advances the global numpy random state"""
    import numpy as np

    from vt.contract import Violation

    name, args = p["name"], p["args"]
    _reference(name, args, p["seed"])
    for s in (p["seed"], None):
        np.random.seed(p.get("gseed", 123))
        np.random.rand(3)
        st = np.random.get_state()
        _call_kw(name, args, s)
        st2 = np.random.get_state()
        same = st[0] == st2[0] and np.array_equal(st[1], st2[1]) and st[2:] == st2[2:]
        if not same:
            raise Violation("%s(%s, seed=%s) advanced / reseeded the global numpy random state" % (name, args, s))
        nxt = np.random.rand()
        np.random.set_state(st)
        if np.random.rand() != nxt:
            raise Violation("%s(%s, seed=%s) changed the next global draw" % (name, args, s))


# ------------------------------------------------------------------------------------------ ensembles, PGM / PBM
def _haar(rng, d, real):
    import numpy as np

    G = rng.standard_normal((d, d))
    if not real:
        G = G + 1j * rng.standard_normal((d, d))
    Q, R = np.linalg.qr(G)
    ph = np.diag(R).copy()
    ph = np.where(np.abs(ph) > 0, ph / np.abs(np.where(ph == 0, 1, ph)), 1)
    return Q * ph


def _rand_density(rng, d, real, rank=None):
    import numpy as np

    r = rank or d
    G = rng.standard_normal((d, r))
    if not real:
        G = G + 1j * rng.standard_normal((d, r))
    M = G @ G.conj().T
    M = (M + M.conj().T) / 2
    return M / np.trace(M).real


def _ensemble(p):
    """-> (states as passed to toqito, density matrices, probs as passed (may be None), probs as numbers).
    kind: pure-1d / pure-col / pure-dm / mixed / mixed-rank2 / orthonormal; field: real / complex;
    prior: none / uniform / random / zero (one prior equal to 0)."""
    import numpy as np

    from vt.contract import Undecided

    d, n, kind, real, prior = p["d"], p["n"], p["kind"], p.get("field", "complex") == "real", p.get("prior", "random")
    for attempt in range(400):
        rng = np.random.default_rng([p.get("seed", 0), attempt, d, n])
        if prior in ("none", "uniform"):
            pr = np.full(n, 1.0 / n)
        else:
            pr = rng.random(n) + 0.05
            if prior == "zero":
                pr[int(rng.integers(n))] = 0.0
            pr = pr / pr.sum()
        vecs = None
        if kind == "orthonormal":
            U = _haar(rng, d, real)
            vecs = [U[:, i % d].copy() for i in range(n)]
        elif kind.startswith("mixed-dtype"):
            # one list, three numpy dtypes: an integer basis ket, a real superposition, then complex states
            e = np.eye(d)
            vecs = [e[0].copy(), (e[0] + e[1 % d]) / np.sqrt(2), (e[1 % d] + 1j * e[2 % d]) / np.sqrt(2)]
            while len(vecs) < n:
                v = rng.standard_normal(d) + 1j * rng.standard_normal(d)
                vecs.append(v / np.linalg.norm(v))
            vecs = vecs[:n]
        elif kind.startswith("pure"):
            vecs = []
            for _ in range(n):
                v = rng.standard_normal(d)
                if not real:
                    v = v + 1j * rng.standard_normal(d)
                vecs.append(v / np.linalg.norm(v))
        if vecs is not None:
            dms = [np.outer(v, v.conj()) for v in vecs]
            if kind == "pure-1d" or kind == "orthonormal":
                passed = [v.copy() for v in vecs]
            elif kind == "pure-col":
                passed = [v.reshape(-1, 1).copy() for v in vecs]
            elif kind == "pure-row":  # (1, d) row vectors: accepted by to_density_matrix like columns
                passed = [v.reshape(1, -1).copy() for v in vecs]
            else:
                passed = [m.copy() for m in dms]
            if kind.startswith("mixed-dtype"):
                passed = [v.reshape(-1, 1).copy() for v in vecs] if kind.endswith("col") else ([m.copy() for m in dms] if kind.endswith("dm") else [v.copy() for v in vecs])
                passed[0] = np.rint(passed[0].real).astype(np.int64)
                if len(passed) > 1:
                    passed[1] = np.ascontiguousarray(passed[1].real.astype(float))
        else:
            rank = 2 if kind == "mixed-rank2" else None
            dms = [_rand_density(rng, d, real, rank if (rank and rank < d) else None) for _ in range(n)]
            passed = [m.copy() for m in dms]
        avg = sum(pr[i] * dms[i] for i in range(n))
        if float(np.min(np.linalg.eigvalsh((avg + avg.conj().T) / 2))) >= 1e-3:
            probs_arg = None if prior == "none" else [float(x) for x in pr]
            return passed, dms, probs_arg, pr
    raise Undecided("no spanning ensemble with lambda_min >= 1e-3 found for %s" % (p,))


def _inv_sqrt(M):
    import numpy as np

    w, V = np.linalg.eigh((M + M.conj().T) / 2)
    return (V * (w**-0.5)) @ V.conj().T


def _pgm_oracle(dms, pr):
    avg = sum(pr[i] * dms[i] for i in range(len(dms)))
    R = _inv_sqrt(avg)
    return [R @ (pr[i] * dms[i]) @ R for i in range(len(dms))]


def _check_povm_list(ops, d, n, what):
    import numpy as np

    from vt.contract import Violation

    if len(ops) != n:
        raise Violation("%s has %d elements, expected %d" % (what, len(ops), n))
    S = np.zeros((d, d), dtype=complex)
    for i, M in enumerate(ops):
        M = _check_square(M, d, "%s element %d" % (what, i))
        _check_psd(M, "%s element %d" % (what, i))
        S += M
    dev = float(np.max(np.abs(S - np.eye(d))))
    if dev > TOL:
        raise Violation("%s: elements sum to the identity with max deviation %.3g" % (what, dev))


def pgm_is_povm(p):
    """pretty_good_measurement of a spanning ensemble: n PSD operators summing to I"""
    from toqito.measurements import pretty_good_measurement

    passed, dms, probs_arg, pr = _ensemble(p)
    G = pretty_good_measurement(passed) if probs_arg is None else pretty_good_measurement(passed, probs_arg)
    _check_povm_list(G, p["d"], p["n"], "pretty_good_measurement(d=%d, n=%d, %s, %s, prior=%s)" % (p["d"], p["n"], p["kind"], p.get("field"), p.get("prior")))


def pgm_formula(p):
    """G_i = rho^{-1/2} p_i rho_i rho^{-1/2} with rho = sum_i p_i rho_i (inverse square root by an independent eigendecomposition)"""
    import numpy as np

    from toqito.measurements import pretty_good_measurement

    from vt.contract import Violation

    passed, dms, probs_arg, pr = _ensemble(p)
    G = pretty_good_measurement(passed) if probs_arg is None else pretty_good_measurement(passed, probs_arg)
    exp = _pgm_oracle(dms, pr)
    if len(G) != len(exp):
        raise Violation("pretty_good_measurement returned %d operators for %d states" % (len(G), len(exp)))
    for i in range(len(exp)):
        Gi = _check_square(G[i], p["d"], "PGM element %d" % i)
        dev = float(np.max(np.abs(Gi - exp[i])))
        if dev > TOL:
            raise Violation("pretty_good_measurement element %d differs from rho^-1/2 p_i rho_i rho^-1/2 by %.3g (d=%d, n=%d, %s, prior=%s)" % (i, dev, p["d"], p["n"], p["kind"], p.get("prior")))


def pbm_is_povm(p):
    """pretty_bad_measurement of a spanning ensemble: n PSD operators summing to I"""
    from toqito.measurements import pretty_bad_measurement

    passed, dms, probs_arg, pr = _ensemble(p)
    B = pretty_bad_measurement(passed) if probs_arg is None else pretty_bad_measurement(passed, probs_arg)
    _check_povm_list(B, p["d"], p["n"], "pretty_bad_measurement(d=%d, n=%d, %s, %s, prior=%s)" % (p["d"], p["n"], p["kind"], p.get("field"), p.get("prior")))


def pbm_formula(p):
    """B_i = (I - G_i) / (n - 1) with G the pretty good measurement (oracle formula)"""
    import numpy as np

    from toqito.measurements import pretty_bad_measurement

    from vt.contract import Violation

    passed, dms, probs_arg, pr = _ensemble(p)
    B = pretty_bad_measurement(passed) if probs_arg is None else pretty_bad_measurement(passed, probs_arg)
    exp = _pgm_oracle(dms, pr)
    n, d = p["n"], p["d"]
    if len(B) != n:
        raise Violation("pretty_bad_measurement returned %d operators for %d states" % (len(B), n))
    for i in range(n):
        Bi = _check_square(B[i], d, "PBM element %d" % i)
        dev = float(np.max(np.abs(Bi - (np.eye(d) - exp[i]) / (n - 1))))
        if dev > TOL:
            raise Violation("pretty_bad_measurement element %d differs from (I - G_i)/(n-1) by %.3g (d=%d, n=%d)" % (i, dev, d, n))


def _opt_bounds(dms, pr, oracle):
    """certified bracket lo <= max_POVM sum_i p_i Tr(rho_i M_i) <= hi"""
    import numpy as np

    from vt.contract import Undecided

    n, d = len(dms), dms[0].shape[0]
    if d == 1:
        v = float(np.max(pr))
        return v, v, "closed form (d = 1)"
    if oracle == "helstrom":
        if n != 2:
            raise ValueError("Helstrom oracle needs two states")
        D = pr[0] * dms[0] - pr[1] * dms[1]
        v = 0.5 * (float(pr[0] + pr[1]) + float(np.sum(np.abs(np.linalg.eigvalsh((D + D.conj().T) / 2)))))
        return v - 1e-9, v + 1e-9, "Helstrom closed form"
    if oracle == "orthogonal":
        return 1.0 - 1e-9, 1.0 + 1e-9, "orthogonal states with distinct labels are perfectly distinguishable"
    import cvxpy as cp

    W = [pr[i] * (dms[i] + dms[i].conj().T) / 2 for i in range(n)]
    # primal
    M = [cp.Variable((d, d), hermitian=True) for _ in range(n)]
    prob = cp.Problem(cp.Maximize(cp.real(sum(cp.trace(W[i] @ M[i]) for i in range(n)))), [m >> 0 for m in M] + [sum(M) == np.eye(d)])
    prob.solve(solver=cp.CLARABEL)
    if prob.status not in ("optimal", "optimal_inaccurate") or any(m.value is None for m in M):
        raise Undecided("oracle primal SDP status %s" % prob.status)
    Ms = []
    for m in M:
        H = (m.value + m.value.conj().T) / 2
        w, V = np.linalg.eigh(H)
        Ms.append((V * np.clip(w, 0, None)) @ V.conj().T)
    S = sum(Ms)
    if float(np.min(np.linalg.eigvalsh(S))) < 1e-6:
        raise Undecided("oracle primal point cannot be renormalised")
    R = _inv_sqrt(S)
    Ms = [R @ m @ R for m in Ms]  # exactly feasible: PSD and summing to I (up to rounding)
    lo = float(sum(np.trace(W[i] @ Ms[i]).real for i in range(n)))
    # dual
    Y = cp.Variable((d, d), hermitian=True)
    dual = cp.Problem(cp.Minimize(cp.real(cp.trace(Y))), [Y - W[i] >> 0 for i in range(n)])
    dual.solve(solver=cp.CLARABEL)
    if dual.status not in ("optimal", "optimal_inaccurate") or Y.value is None:
        raise Undecided("oracle dual SDP status %s" % dual.status)
    Yv = (Y.value + Y.value.conj().T) / 2
    eps = max(0.0, max(float(np.max(np.linalg.eigvalsh(W[i] - Yv))) for i in range(n)))
    hi = float(np.trace(Yv).real) + d * (eps + 1e-12)
    if hi - lo > TOL_SDP or hi < lo - 1e-9:
        raise Undecided("oracle bracket [%.6f, %.6f] too wide" % (lo, hi))
    return lo, hi, "own cvxpy SDP (CLARABEL), primal and dual points repaired to feasibility"


def _pgm_success(p):
    import numpy as np

    from toqito.measurements import pretty_good_measurement

    passed, dms, probs_arg, pr = _ensemble(p)
    G = pretty_good_measurement(passed) if probs_arg is None else pretty_good_measurement(passed, probs_arg)
    val = float(sum(pr[i] * np.trace(dms[i] @ np.asarray(G[i])).real for i in range(len(dms))))
    lo, hi, how = _opt_bounds(dms, pr, p.get("oracle", "sdp"))
    return val, lo, hi, how


def pgm_success_le_opt(p):
    """P_pgm = sum_i p_i Tr(rho_i G_i) <= optimal success probability (certified upper bound)"""
    from vt.contract import Violation

    val, lo, hi, how = _pgm_success(p)
    if val > hi + TOL:
        raise Violation("pretty good measurement succeeds with probability %.8f > optimum <= %.8f (%s; d=%d, n=%d, %s)" % (val, hi, how, p["d"], p["n"], p["kind"]))
    return {"pgm": val, "lo": lo, "hi": hi}


def pgm_success_ge_opt_sq(p):
    """P_pgm >= opt^2 (Barnum-Knill), judged against the certified lower bound of opt"""
    from vt.contract import Violation

    val, lo, hi, how = _pgm_success(p)
    if val < lo * lo - TOL:
        raise Violation("pretty good measurement succeeds with probability %.8f < opt^2 >= %.8f (opt >= %.8f, %s; d=%d, n=%d, %s)" % (val, lo * lo, lo, how, p["d"], p["n"], p["kind"]))
    return {"pgm": val, "lo": lo, "hi": hi}


# ------------------------------------------------------------------------------------------ is_povm
def _own_povm(rng, d, n, real):
    import numpy as np

    Gs = []
    for _ in range(n):
        A = rng.standard_normal((d, d))
        if not real:
            A = A + 1j * rng.standard_normal((d, d))
        Gs.append(A @ A.conj().T)
    R = _inv_sqrt(sum(Gs))
    out = []
    for G in Gs:
        M = R @ G @ R
        out.append((M + M.conj().T) / 2)  # exactly Hermitian
    return out


def is_povm_accepts(p):
    """is_povm is True on PSD operators that sum to the identity (built by construction, incl. projective and trivial ones)"""
    import numpy as np

    from toqito.measurement_props import is_povm

    from vt.contract import Violation

    d, n, real = p["d"], p["n"], p.get("field") == "real"
    rng = np.random.default_rng([p.get("seed", 0), d, n, 11])
    if p.get("kind") == "projective":
        U = _haar(rng, d, real)
        ops = []
        for i in range(d):
            P = np.outer(U[:, i], U[:, i].conj())
            ops.append((P + P.conj().T) / 2)
    elif p.get("kind") == "trivial":
        w = rng.random(n) + 0.1
        w /= w.sum()
        ops = [w[i] * np.eye(d) for i in range(n)]
    else:
        ops = _own_povm(rng, d, n, real)
    S = sum(ops)
    if float(np.max(np.abs(S - np.eye(d)))) > 1e-10 or min(_min_eig(M) for M in ops) < -1e-10:
        from vt.contract import Undecided

        raise Undecided("generated POVM not accurate enough")
    if is_povm(ops) is not True and not bool(is_povm(ops)):
        raise Violation("is_povm rejects a valid POVM (d=%d, n=%d, kind=%s): sum deviates from I by %.3g, smallest eigenvalue %.3g" % (d, n, p.get("kind"), float(np.max(np.abs(S - np.eye(d)))), min(_min_eig(M) for M in ops)))


def is_povm_rejects(p):
    """is_povm is False when completeness fails by 1e-2, or an element has an eigenvalue <= -1e-2, or an element is not Hermitian"""
    import numpy as np

    from toqito.measurement_props import is_povm

    from vt.contract import Violation

    d, n, real = p["d"], p["n"], p.get("field") == "real"
    rng = np.random.default_rng([p.get("seed", 0), d, n, 13])
    ops = _own_povm(rng, d, n, real)
    defect = p["defect"]
    if defect == "sum":
        ops[0] = ops[0] + 1e-2 * np.eye(d)
    elif defect == "scaled":
        ops = [0.97 * M for M in ops]
    elif defect == "negative":
        # move weight so that the sum stays I but one element gets a negative eigenvalue
        w, V = np.linalg.eigh(ops[0])
        v = V[:, 0]
        shift = (w[0] + 5e-2) * np.outer(v, v.conj())
        shift = (shift + shift.conj().T) / 2
        ops[0] = ops[0] - shift
        ops[1] = ops[1] + shift
    elif defect == "nonhermitian":
        if d < 2:
            raise ValueError("needs d >= 2")
        E = np.zeros((d, d))
        E[0, 1] = 5e-2
        ops[0] = ops[0] + E
        ops[1] = ops[1] - E
    else:
        raise ValueError(defect)
    if bool(is_povm(ops)):
        raise Violation("is_povm accepts an invalid measurement (defect=%s, d=%d, n=%d): sum deviates from I by %.3g, smallest eigenvalue %.3g" % (defect, d, n, float(np.max(np.abs(sum(ops) - np.eye(d)))), min(_min_eig(M) for M in ops)))


# ------------------------------------------------------------------------------------------ measure
def _measurement(p):
    """-> (rho, list of Kraus operators K_i, complete?)   kinds: projective / projective-coarse / kraus / kraus-rect / povm-sqrt"""
    import numpy as np

    from vt.contract import Undecided

    d, m, real, kind = p["d"], p["m"], p.get("field") == "real", p["kind"]
    rng = np.random.default_rng([p.get("seed", 0), d, m, 17])
    sk = p.get("state", "mixed")
    U = _haar(rng, d, real)
    if sk == "mixed":
        rho = _rand_density(rng, d, real)
    elif sk == "pure":
        v = rng.standard_normal(d) + (0 if real else 1j * rng.standard_normal(d))
        v = v / np.linalg.norm(v)
        rho = np.outer(v, v.conj())
        rho = (rho + rho.conj().T) / 2
    elif sk == "basis":  # first vector of the measured basis: some outcomes have probability exactly ~0
        v = U[:, 0]
        rho = np.outer(v, v.conj())
        rho = (rho + rho.conj().T) / 2
    else:
        raise ValueError(sk)
    if kind == "projective":
        Ks = [np.outer(U[:, i], U[:, i].conj()) for i in range(d)]
    elif kind == "projective-coarse":
        groups = [list(range(i, d, m)) for i in range(min(m, d))]
        Ks = [sum(np.outer(U[:, j], U[:, j].conj()) for j in g) for g in groups]
    elif kind in ("kraus", "kraus-rect"):
        dout = d if kind == "kraus" else p["dout"]
        V = _haar(rng, m * dout, real)[:, :d] if m * dout >= d else None
        if V is None:
            raise ValueError("need m * dout >= d")
        Ks = [V[i * dout : (i + 1) * dout, :].copy() for i in range(m)]
    elif kind == "povm-sqrt":
        Ms = _own_povm(rng, d, m, real)
        Ks = []
        for M in Ms:
            w, W = np.linalg.eigh(M)
            Ks.append((W * np.sqrt(np.clip(w, 0, None))) @ W.conj().T)
    else:
        raise ValueError(kind)
    comp = sum(K.conj().T @ K for K in Ks)
    if float(np.max(np.abs(comp - np.eye(d)))) > 1e-12:
        raise Undecided("generated measurement is complete only to %.3g" % float(np.max(np.abs(comp - np.eye(d)))))
    return rho, Ks


def _born(rho, K):
    import numpy as np

    # Tr(K^dagger K rho) written as an inner product <K, K rho>
    return float(np.real(np.vdot(K, K @ rho)))


def _measure_call(p, rho, Ks, update):
    from toqito.measurement_ops.measure import measure

    arg = tuple(Ks) if p.get("container") == "tuple" else list(Ks)
    return measure(rho, arg, state_update=update) if update else measure(rho, arg)


def measure_born(p):
    """measure(rho, [K_i]) returns p_i = Tr(K_i^dagger K_i rho) for every outcome (with and without state_update)"""
    import numpy as np

    from vt.contract import Violation

    rho, Ks = _measurement(p)
    upd = bool(p.get("update"))
    out = _measure_call(p, rho, Ks, upd)
    if len(out) != len(Ks):
        raise Violation("measure returned %d outcomes for %d operators" % (len(out), len(Ks)))
    for i, K in enumerate(Ks):
        got = out[i][0] if upd else out[i]
        exp = _born(rho, K)
        if not abs(float(got) - exp) <= 1e-9:
            raise Violation("measure: outcome %d has probability %.12g, Born rule gives %.12g (d=%d, kind=%s)" % (i, float(got), exp, p["d"], p["kind"]))


def measure_sum_to_one(p):
    """probabilities of a complete measurement are non-negative and sum to 1"""
    from vt.contract import Violation

    rho, Ks = _measurement(p)
    upd = bool(p.get("update"))
    out = _measure_call(p, rho, Ks, upd)
    probs = [float(o[0] if upd else o) for o in out]
    if min(probs) < -1e-9:
        raise Violation("measure returned a negative probability %.3g" % min(probs))
    if abs(sum(probs) - 1) > 1e-9:
        raise Violation("measure: probabilities of a complete measurement sum to %.12g (d=%d, kind=%s, %d operators)" % (sum(probs), p["d"], p["kind"], len(Ks)))


def measure_post_states(p):
    """state_update=True: post-state i is K_i rho K_i^dagger / p_i -- unit trace, PSD -- when p_i > tol, and the zero matrix otherwise"""
    import numpy as np

    from vt.contract import Violation

    rho, Ks = _measurement(p)
    out = _measure_call(p, rho, Ks, True)
    for i, K in enumerate(Ks):
        pr, post = out[i]
        post = np.asarray(post)
        exp_p = _born(rho, K)
        if exp_p > 1e-8:
            exp = K @ rho @ K.conj().T / exp_p
            if post.shape != exp.shape:
                raise Violation("measure: post-state %d has shape %s, expected %s" % (i, post.shape, exp.shape))
            if abs(complex(np.trace(post)) - 1) > 1e-9:
                raise Violation("measure: post-state %d has trace %s (p_i = %.6g)" % (i, complex(np.trace(post)), exp_p))
            _check_psd(post, "measure post-state %d" % i)
            dev = float(np.max(np.abs(post - exp)))
            if dev > 1e-7:
                raise Violation("measure: post-state %d differs from K rho K^dagger / p by %.3g" % (i, dev))
        elif exp_p < 1e-12:
            if float(np.max(np.abs(post))) > 0:
                raise Violation("measure: outcome %d has probability %.3g <= tol but its post-state is not the zero matrix" % (i, exp_p))


def measure_single_operator(p):
    """measure(rho, K) with one operator returns Tr(K^dagger K rho) (and the normalised post-state with state_update)"""
    import numpy as np

    from toqito.measurement_ops.measure import measure

    from vt.contract import Violation

    rho, Ks = _measurement(p)
    for i, K in enumerate(Ks):
        exp = _born(rho, K)
        got = measure(rho, K)
        if isinstance(got, (list, tuple)) or not abs(float(got) - exp) <= 1e-9:
            raise Violation("measure(rho, K) = %r, Born rule gives %.12g" % (got, exp))
        got2 = measure(rho, K, state_update=True)
        if not (isinstance(got2, tuple) and len(got2) == 2):
            raise Violation("measure(rho, K, state_update=True) did not return (probability, state): %r" % (type(got2),))
        if not abs(float(got2[0]) - exp) <= 1e-9:
            raise Violation("measure(rho, K, state_update=True) probability %.12g, Born rule gives %.12g" % (float(got2[0]), exp))
        if exp > 1e-8:
            post = np.asarray(got2[1])
            if abs(complex(np.trace(post)) - 1) > 1e-9:
                raise Violation("measure(rho, K, state_update=True): post-state has trace %s" % complex(np.trace(post)))
            dev = float(np.max(np.abs(post - K @ rho @ K.conj().T / exp)))
            if dev > 1e-7:
                raise Violation("measure(rho, K, state_update=True): post-state differs from K rho K^dagger / p by %.3g" % dev)


def measure_rejects_incomplete(p):
    """documented: with state_update=True a list that violates completeness (by 1e-2) raises ValueError (all outcomes possible)"""
    import numpy as np

    from toqito.measurement_ops.measure import measure

    from vt.contract import Violation

    q = dict(p)
    q["state"] = "mixed"
    rho, Ks = _measurement(q)
    Ks = [K.copy() for K in Ks]
    Ks[0] = Ks[0] * 0.9
    if min(_born(rho, K) for K in Ks) < 1e-6:
        from vt.contract import Undecided

        raise Undecided("an outcome has (almost) zero probability; the documented check does not apply")
    try:
        measure(rho, Ks, state_update=True)
    except ValueError:
        return
    raise Violation("measure(state_update=True) accepted operators with sum K^dagger K != I (deviation %.3g)" % float(np.max(np.abs(sum(K.conj().T @ K for K in Ks) - np.eye(p["d"])))))


CLAUSES = {
    "unitary.kind": unitary_kind,
    "density.kind": density_kind,
    "density.rank_le_k": density_rank_le_k,
    "psd.kind": psd_kind,
    "basis.kind": basis_kind,
    "statevec.unit": statevec_unit,
    "statevec.schmidt_rank_le_k": statevec_schmidt_rank_le_k,
    "povm.kind": povm_kind,
    "circulant.kind": circulant_kind,
    "states.kind": states_kind,
    "repro.same_seed": repro_same_seed,
    "repro.different_seeds": repro_different_seeds,
    "repro.global_state": repro_global_state,
    "pgm.is_povm": pgm_is_povm,
    "pgm.formula": pgm_formula,
    "pgm.success_le_opt": pgm_success_le_opt,
    "pgm.success_ge_opt_sq": pgm_success_ge_opt_sq,
    "pbm.is_povm": pbm_is_povm,
    "pbm.formula": pbm_formula,
    "is_povm.accepts": is_povm_accepts,
    "is_povm.rejects": is_povm_rejects,
    "measure.born": measure_born,
    "measure.sum_to_one": measure_sum_to_one,
    "measure.post_states": measure_post_states,
    "measure.single_operator": measure_single_operator,
    "measure.rejects_incomplete": measure_rejects_incomplete,
}
_FN = {
    "unitary": "random_unitary",
    "density": "random_density_matrix",
    "psd": "random_psd_operator",
    "basis": "random_orthonormal_basis",
    "statevec": "random_state_vector",
    "povm": "random_povm",
    "circulant": "random_circulant_gram_matrix",
    "states": "random_states",
    "repro": "toqito.rand",  # overridden per case with the generator's name
    "pgm": "pretty_good_measurement",
    "pbm": "pretty_bad_measurement",
    "is_povm": "is_povm",
    "measure": "measure",
}
for _k, _f in CLAUSES.items():
    _f.function = _FN[_k.split(".")[0]]
pgm_success_le_opt.limit = 60
pgm_success_ge_opt_sq.limit = 60


# ------------------------------------------------------------------------------------------ case generation
def _density_class(d, k, metric):
    if k is None:
        c = "k=None"
    elif k == d:
        c = "k=dim"
    elif k == 1:
        c = "k=1<dim"
    else:
        c = "1<k<dim"
    return "random_density_matrix/%s/%s" % (metric, c)


def _statevec_class(dim, k):
    if isinstance(dim, list):
        full = not (0 < k < min(dim))
        return "random_state_vector/list-dim/%s" % ("full-rank" if full else "k<min(dim)")
    full = not (0 < k < dim)
    return "random_state_vector/scalar-dim/%s" % ("full-rank" if full else "k<dim")


def _repro_targets(dmax=6):
    """(name, keyword args, input class, continuum?) for every generator over dims 1..dmax and its options"""
    T = []
    for d in range(1, dmax + 1):
        for real in (False, True):
            T.append(("random_unitary", {"dim": d, "is_real": real}, "random_unitary/scalar-dim", d >= 2))
            T.append(("random_psd_operator", {"dim": d, "is_real": real}, "random_psd_operator", d >= 2))
            T.append(("random_orthonormal_basis", {"dim": d, "is_real": real}, "random_orthonormal_basis", d >= 2))
            for metric in ("haar", "bures"):
                for k in sorted({None, 1, max(1, d // 2), d}, key=lambda x: (x is not None, x or 0)):
                    T.append(("random_density_matrix", {"dim": d, "is_real": real, "k_param": k, "distance_metric": metric}, _density_class(d, k, metric), d >= 2))
            for k in sorted({0, 1, d - 1, d}):
                if k < 0:
                    continue
                T.append(("random_state_vector", {"dim": d, "is_real": real, "k_param": k}, _statevec_class(d, k), d >= 2))
        T.append(("random_unitary", {"dim": [d, d]}, "random_unitary/list-dim", d >= 2))
        T.append(("random_circulant_gram_matrix", {"dim": d}, "random_circulant_gram_matrix", d >= 2))
        T.append(("random_states", {"n": 3, "d": d}, "random_states", d >= 2))
        T.append(("random_ginibre", {"dim_n": d, "dim_m": (d % 3) + 1}, "random_ginibre", True))
        T.append(("random_povm", {"dim": d, "num_inputs": 2, "num_outputs": 3}, "random_povm", d >= 2))
        T.append(("random_povm", {"dim": d, "num_inputs": 1, "num_outputs": 1}, "random_povm", False))
    for d1, d2 in ((2, 2), (2, 3), (3, 2), (1, 4), (3, 3), (2, 5), (4, 4), (6, 6), (6, 2)):
        for k in sorted({0, 1, min(d1, d2) - 1, min(d1, d2)}):
            if k < 0:
                continue
            T.append(("random_state_vector", {"dim": [d1, d2], "k_param": k}, _statevec_class([d1, d2], k), True))
    return T


def cases(tier, seed):
    import random

    thorough = tier == "thorough"
    rnd = random.Random(seed)
    out = []

    def add(clause, params, ic, nontrivial=True, function=None):
        c = dict(clause=clause, params=params, input_class=ic, nontrivial=nontrivial)
        if function:
            c["function"] = function
        out.append(c)

    # seeds handed to the generators: 0 (falsy!), and seeds derived from VERIF_SEED
    derived = [rnd.randrange(1, 2**31) for _ in range(8 if thorough else 4)]
    seeds = [0] + derived
    if thorough:
        seeds.append(2**40 + 3)
    s2 = seeds[:2]

    # ---- kinds -------------------------------------------------------------------------------------------------
    for d in range(1, 7):
        nt = d >= 2
        for real in (False, True):
            for s in seeds:
                add("unitary.kind", dict(dim=d, is_real=real, seed=s, dimform="scalar"), "random_unitary/scalar-dim", nt)
                add("unitary.kind", dict(dim=d, is_real=real, seed=s, dimform="list"), "random_unitary/list-dim", nt)
                add("psd.kind", dict(dim=d, is_real=real, seed=s), "random_psd_operator", nt)
                add("basis.kind", dict(dim=d, is_real=real, seed=s), "random_orthonormal_basis", nt)
            add("unitary.kind", dict(dim=d, is_real=real, seed=seeds[1], dimform="scalar", call="keywords"), "random_unitary/scalar-dim", nt)
            for metric in ("haar", "bures"):
                for k in [None] + list(range(1, d + 1)):
                    for s in (seeds if thorough else s2):
                        q = dict(dim=d, is_real=real, k=k, metric=metric, seed=s)
                        add("density.kind", q, _density_class(d, k, metric), nt)
                        add("density.rank_le_k", q, _density_class(d, k, metric), nt)
                q = dict(dim=d, is_real=real, k=max(1, d - 1), metric=metric, seed=seeds[1], call="keywords")
                add("density.kind", q, _density_class(d, q["k"], metric), nt)
            for k in range(0, d + 1):
                for s in (seeds if thorough else s2):
                    q = dict(dim=d, is_real=real, k=k, seed=s)
                    add("statevec.unit", q, _statevec_class(d, k), nt)
                    add("statevec.schmidt_rank_le_k", q, _statevec_class(d, k), nt and 0 < k < d)
        for s in seeds:
            add("circulant.kind", dict(dim=d, seed=s), "random_circulant_gram_matrix", nt)
        for n in (1, 2, 5):
            add("states.kind", dict(n=n, dim=d, seed=seeds[1]), "random_states", nt)
        for ni in (1, 2, 3):
            for no in (1, 2, 3, 4):
                for s in (seeds if thorough else s2):
                    add("povm.kind", dict(dim=d, num_inputs=ni, num_outputs=no, seed=s), "random_povm", nt and no >= 2)
    # list dimensions, every pair d1, d2 in 1..6, Schmidt-rank bound over its whole range 0..min(d1, d2)
    for d1 in range(1, 7):
        for d2 in range(1, 7):
            for k in range(0, min(d1, d2) + 1):
                for real in (False, True):
                    if not thorough and real and (d1 + d2 + k) % 2:
                        continue  # quick tier: half of the real settings
                    for s in (s2 if thorough else seeds[1:2]):
                        q = dict(dim=[d1, d2], is_real=real, k=k, seed=s)
                        add("statevec.unit", q, _statevec_class([d1, d2], k), d1 * d2 >= 2)
                        add("statevec.schmidt_rank_le_k", q, _statevec_class([d1, d2], k), 0 < k < min(d1, d2))
    add("statevec.unit", dict(dim=[2, 3], is_real=False, k=1, seed=seeds[1], call="keywords"), _statevec_class([2, 3], 1))

    # ---- reproducibility -----------------------------------------------------------------------------------------
    targets = _repro_targets()
    for i, (name, args, ic, cont) in enumerate(targets):
        dnt = cont
        for s in (seeds if thorough else [seeds[i % 2], seeds[2]]):  # quick: seed 0 or the first derived seed, plus the second derived seed
            add("repro.same_seed", dict(name=name, args=args, seed=s, hseed=seed + i, histories=60 if thorough else 16), "repro/" + ic, dnt, function=name)
        add("repro.global_state", dict(name=name, args=args, seed=seeds[1], gseed=100 + i), "repro/" + ic, dnt, function=name)
        if cont:
            add("repro.different_seeds", dict(name=name, args=args, seeds=seeds + [seeds[1] + 1]), "repro/" + ic, True, function=name)

    # ---- PGM / PBM -----------------------------------------------------------------------------------------------
    priors = ["random", "none", "uniform", "zero"]
    ens = []
    i = 0
    for d in range(1, 7):
        for n in range(2, 7):
            kinds = ["mixed"]
            if n >= d:
                kinds += ["pure-1d", "pure-col"] if (d + n) % 2 else ["pure-col", "pure-dm"]
            if 2 * n >= d and d >= 3:
                kinds.append("mixed-rank2")
            for kind in kinds:
                for field in ("complex", "real"):
                    if not thorough and field == "real" and (d + n + len(kind)) % 2:
                        continue
                    i += 1
                    prior = priors[i % 4]
                    if prior == "zero" and ((kind.startswith("pure") and n - 1 < d) or (kind == "mixed-rank2" and 2 * (n - 1) < d)):
                        prior = "random"  # dropping a state would break spanning
                    ens.append(dict(d=d, n=n, kind=kind, field=field, prior=prior, seed=seed + i))
    if thorough:
        ens = ens + [dict(e, seed=e["seed"] + 1000 * r, prior=priors[(j + r) % 4] if not ((e["kind"].startswith("pure") and e["n"] - 1 < e["d"]) or (e["kind"] == "mixed-rank2" and 2 * (e["n"] - 1) < e["d"])) else "random") for r in (1, 2) for j, e in enumerate(ens)]
    for d_, n_ in ((2, 2), (2, 3), (3, 4)):
        for fld in ("complex", "real"):
            ens.append(dict(d=d_, n=n_, kind="pure-row", field=fld, prior="random", seed=seed + 78))
    for d_, n_ in ((2, 3), (3, 4), (3, 5)):
        for kd in ("mixed-dtype-1d", "mixed-dtype-col", "mixed-dtype-dm"):
            ens.append(dict(d=d_, n=n_, kind=kd, field="complex", prior="random", seed=seed + 77))
    for e in ens:
        ic = "d=%d/%s/prior=%s" % (e["d"], ("mixed-dtype-list" if e["kind"].startswith("mixed-dtype") else "pure") if not e["kind"] == "mixed" and not e["kind"] == "mixed-rank2" else "mixed", e["prior"])
        nt = e["d"] >= 2
        add("pgm.is_povm", e, "pretty_good_measurement/" + ic, nt)
        add("pgm.formula", e, "pretty_good_measurement/" + ic, nt)
        add("pbm.is_povm", e, "pretty_bad_measurement/" + ic, nt)
        add("pbm.formula", e, "pretty_bad_measurement/" + ic, nt)
    # success-probability bounds: Helstrom for n = 2, orthogonal states, SDP-certified for a sample of the ensembles
    for d in range(1, 7):
        for field in ("complex", "real"):
            for kind in ("mixed", "pure-col") if d <= 2 else ("mixed",):
                e = dict(d=d, n=2, kind=kind, field=field, prior="random", seed=seed + 31 * d, oracle="helstrom")
                add("pgm.success_le_opt", e, "pgm-success/n=2/helstrom", d >= 2)
                add("pgm.success_ge_opt_sq", e, "pgm-success/n=2/helstrom", d >= 2)
        if d >= 2:
            e = dict(d=d, n=d, kind="orthonormal", field="complex", prior="random", seed=seed + d, oracle="orthogonal")
            add("pgm.success_le_opt", e, "pgm-success/orthonormal", True)
            add("pgm.success_ge_opt_sq", e, "pgm-success/orthonormal", True)
    sdp = [e for e in ens if e["d"] >= 2]
    rnd2 = random.Random(seed + 1)
    grid_sdp = [e for e in sdp if (e["d"], e["n"]) in ((2, 3), (2, 6), (3, 3), (3, 4), (4, 4), (4, 5), (5, 5), (6, 6), (3, 2), (5, 3))]
    picked = {id(e): e for e in grid_sdp}
    for e in sdp:  # every ensemble of the grid (an SDP pair costs < 0.1 s at these sizes)
        picked.setdefault(id(e), e)
    for e in picked.values():
        q = dict(e, oracle="sdp")
        ic = "pgm-success/sdp/%s" % ("pure" if e["kind"].startswith("pure") else "mixed")
        add("pgm.success_le_opt", q, ic, True)
        add("pgm.success_ge_opt_sq", q, ic, True)

    # ---- is_povm -------------------------------------------------------------------------------------------------
    for d in range(1, 7):
        for n in (1, 2, 3, 6):
            for field in ("complex", "real"):
                add("is_povm.accepts", dict(d=d, n=n, field=field, kind="random", seed=seed), "is_povm/valid/random", d >= 2)
                if n >= 2:
                    for defect in ("sum", "scaled", "negative") + (("nonhermitian",) if d >= 2 else ()):
                        if d == 1 and defect == "negative":
                            continue
                        add("is_povm.rejects", dict(d=d, n=n, field=field, defect=defect, seed=seed), "is_povm/invalid/%s" % defect, d >= 2)
        add("is_povm.accepts", dict(d=d, n=d, field="complex", kind="projective", seed=seed), "is_povm/valid/projective", d >= 2)
        add("is_povm.accepts", dict(d=d, n=3, field="real", kind="trivial", seed=seed), "is_povm/valid/trivial", d >= 2)

    # ---- measure -------------------------------------------------------------------------------------------------
    j = 0
    for d in range(1, 7):
        settings = [("projective", d, None), ("projective-coarse", 2, None), ("kraus", 2, None), ("kraus", 4, None), ("povm-sqrt", 3, None), ("kraus-rect", 3, d + 1), ("kraus-rect", 4, max(1, d - 1))]
        for kind, m, dout in settings:
            for state in ("mixed", "pure", "basis"):
                if kind.startswith("kraus-rect") and state != "mixed":
                    continue  # rectangular operators: only outcomes with non-zero probability are judged
                if state == "basis" and not kind.startswith("projective"):
                    continue
                for field in ("complex", "real"):
                    j += 1
                    if not thorough and field == "real" and j % 2:
                        continue
                    q = dict(d=d, m=m, kind=kind, state=state, field=field, seed=seed + j)
                    if dout:
                        q["dout"] = dout
                    if j % 3 == 0:
                        q["container"] = "tuple"
                    ic = "measure/%s/%s" % (kind, state)
                    nt = d >= 2
                    add("measure.born", dict(q, update=False), ic, nt)
                    add("measure.born", dict(q, update=True), ic + "/update", nt)
                    add("measure.sum_to_one", dict(q, update=False), ic, nt)
                    add("measure.sum_to_one", dict(q, update=True), ic + "/update", nt)
                    add("measure.post_states", q, ic + "/update", nt)
                    if kind != "kraus-rect":
                        add("measure.single_operator", q, "measure/single/%s/%s" % (kind, state), nt)
                    if state == "mixed" and kind in ("kraus", "povm-sqrt", "projective") and d >= 2:
                        add("measure.rejects_incomplete", q, "measure/incomplete/%s" % kind, nt)
    return out


# =============================================================================================
# frame coverage shared by all properties (E2 obligations for every public function of the anchor files + run-time frame cases)
# =============================================================================================
from props import frame_all as _fa  # noqa: E402
from props.frame_common import frame_generic as _fg, frame_object as _fo  # noqa: E402

CLAUSES.setdefault("frame.generic", _fg)
CLAUSES.setdefault("frame.object", _fo)
_cases_before_frames = cases
_prove_before_frames = globals().get("prove")


def cases(tier, seed):  # noqa: F811
    return _cases_before_frames(tier, seed) + _fa.frame_cases(ID, seed)


def prove(tier, seed):  # noqa: F811
    from vt.pyvc.termproofs import merge

    b = _fa.prove_frames(ID, lambda s: _fa.frame_cases(ID, s))(tier, seed)
    if _prove_before_frames is None:
        return b
    return merge(_prove_before_frames(tier, seed), b)

if LEVEL == "exploration":
    LEVEL = "other"
LEVEL_TEXT = LEVEL_TEXT + (" Additionally proved (E2, taint analysis of the real AST): every public function and method in this property's anchor files writes through "
                           "no reference reachable from its arguments (or from self), so results do not depend on call order and callers' arrays / lists are not modified; "
                           "a run-time frame clause replays the same claim on concrete arguments.")
LEVEL_TEXT = LEVEL_TEXT + (" Proved (E1-term, over uninterpreted linear algebra, callees by parameter name): pretty_good_measurement(states, probs)[i] = P^(-1/2) (p_i rho_i) P^(-1/2) "
                           "with P = sum p_i rho_i, pretty_bad_measurement[i] = (I - G_i)/(n - 1) with G the pretty good measurement (three states), and the single-operator form of "
                           "measure returns (Tr(K rho K^dagger), K rho K^dagger / p if p > tol else 0).")
EXPLANATION = LEVEL_TEXT
if "E2-frame" not in globals().get("ENGINES", []):
    ENGINES = list(globals().get("ENGINES", ["E3-E4-rtc"])) + ["E2-frame"]
