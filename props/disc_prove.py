"""E1-term contracts for the thin wrappers of C10 / C11: is_distinguishable, is_antidistinguishable, common_quantum_overlap are the stated
functions of the discrimination / exclusion value (callee applied by parameter name; state_distinguishability / state_exclusion are tuple-valued
uninterpreted callees).  Pins which problem is solved (dual form, which priors), the comparison (np.isclose with default tolerances against 1 / 0)
and the overlap formula; says nothing about the SDP value itself (bounded tier)."""

SETS = {
    "C10": (["is_distinguishable"], [("is_distinguishable", "np.isclose(opt_val, 1)", "np.isclose(opt_val, 1, 1e-3)"), ("is_distinguishable", "probs=probs", "probs=None")]),
    "C11": (
        ["is_antidistinguishable", "common_quantum_overlap"],
        [
            ("is_antidistinguishable", "probs = [1] * len(states)", "probs = [1] * (len(states) - 1)"),
            ("common_quantum_overlap", "return n * (1 - (1 - opt_val / n))", "return n * (1 - opt_val / n)"),
            ("is_antidistinguishable", "np.isclose(opt_val, 0)", "np.isclose(opt_val, 0, atol=1e-3)"),
        ],
    ),
}
KEY = {"is_distinguishable": "isd.", "is_antidistinguishable": "isad.", "common_quantum_overlap": "cqo."}


def prove_for(prop):
    def prove(tier, seed):
        import importlib

        from vt.pyvc.termproofs import prove_terms

        names, muts = SETS[prop]
        out = prove_terms(names, muts, "thorough", prop.lower() + "t")
        mod = importlib.import_module("props." + prop)
        gen = getattr(mod, "_cases_before_frames", None) or mod.cases
        cache = {}
        for x in out["records"]:
            if x["status"] != "discharged":
                fn = x["function"]
                if fn not in cache:
                    cache[fn] = [dict(c, function=fn) for c in gen("quick", seed) if KEY.get(fn, fn) in c.get("clause", "") or fn in c.get("input_class", "")][:40]
                x["replay"] = cache[fn]
        # E1-prog: the program each builder hands to the solver is the stated one; the entry point dispatches as stated
        from props.sdp_prove import prove_sdp
        from vt.pyvc.termproofs import merge

        which = {"C10": "sd", "C11": "se"}[prop]
        allc = gen("quick", seed)
        replay = []
        seen = {}
        for c in allc:  # a spread over clauses: at most 6 cases per clause
            k = c.get("clause", "")
            if k.startswith("frame") or seen.get(k, 0) >= 6:
                continue
            seen[k] = seen.get(k, 0) + 1
            replay.append(dict(c, function={"sd": "state_distinguishability", "se": "state_exclusion"}[which]))
        return merge(out, prove_sdp(which, replay[:120], prop.lower() + "p", tier))

    return prove
