"""C16 -- matrix / state-set predicates and linear-algebra helpers match their definitions."""
from __future__ import annotations

import itertools

ID = "C16"
TITLE = "matrix and state-set predicates and linear-algebra helpers match definitions"
LEVEL = "other"
BUDGET = {"quick": 90, "thorough": 900}
ENGINES = ["E1-pyvc", "E3-E4-rtc"]
TECHNIQUE = "run-time-checked contracts on the real functions over a bounded domain (bounded stand-in); vec/unvec/tensor-power additionally by VCs from the real AST"
LEVEL_TEXT = (
    "Bounded (run-time contracts, never counted as proved): every predicate of toqito.matrix_props and the six state-set predicates is called on "
    "matrices of size 1..6, real and complex, that satisfy its definition by construction (exactly, and with 1e-12 noise where the predicate is "
    "tolerance-based) and on the same matrices perturbed so that the defining equation fails by >= 1e-2 (tolerances are 1e-5 relative / 1e-8 absolute), "
    "and on images of both under the transformations that preserve the property; the verdict must be the one implied by the definition. Helper "
    "identities (vec/unvec, vec(AXB), tensor associativity and powers, Gram round trip, commutant, majorizes, spark, kp_norm, trace_norm) are checked "
    "against independent numpy oracles (explicit index formulas, SVD, brute force) for all small conformable shapes."
)
RULE = (
    "Deterministic grid: predicate x variant (kinds of satisfying / violating input) x size 1..6 x {real, complex}, plus every listed invariance "
    "transformation applied to one satisfying and one violating base per size; helper identities over all shapes <= 4 (vec(AXB)), <= 3 factors (tensor), "
    "ranks 1..n (Gram). VERIF_SEED adds random instances of the same kinds. Non-trivial = size >= 2 (or the only size where the kind exists); "
    "distinct = distinct (clause, parameters)."
)
EXPLANATION = LEVEL_TEXT
TRUSTED = [
    "oracles use numpy/LAPACK (SVD, eigvalsh, QR) independently of toqito; LAPACK-level tolerance 1e-7, index results 1e-9",
    "predicates are judged only on inputs whose defining equation holds to <= 1e-11 or fails by >= 1e-2 (>= 10x the predicate's tolerance); boundary inputs are not judged",
    "Hermitian inputs are built exactly ((A + A^dagger)/2) because is_positive_definite compares with np.array_equal",
    "is_projection is judged only where 'idempotent' and the documented 'PSD and idempotent' agree (a repository test pins True on an oblique idempotent, the docstring says PSD)",
    "Haar unitaries by QR of Ginibre matrices; seeded np.random.default_rng",
]
ASSUMPTIONS = TRUSTED
from props.C16_prove import prove  # noqa: E402,F401

# =============================================================================================
# executor side
# =============================================================================================
import numpy as np  # noqa: E402

from vt.contract import Undecided, Violation  # noqa: E402,F401

TOL = 1e-7


class _NA(Exception):
    """this variant does not exist for this size / field (e.g. a real 1x1 matrix is always Hermitian)"""


def _rng(p, salt=0):
    return np.random.default_rng([int(p.get("seed", 0)), int(p.get("n", 0)), 1 if p.get("cx") else 0, int(salt)])


def _gin(rng, shape, cx):
    A = rng.standard_normal(shape)
    if cx:
        A = A + 1j * rng.standard_normal(shape)
    return A


def _haar(rng, n, cx):
    if n == 0:
        return np.zeros((0, 0), dtype=complex if cx else float)
    A = _gin(rng, (n, n), cx)
    q, r = np.linalg.qr(A)
    d = np.diag(r)
    return q * (d / np.abs(d))


def _herm(A):
    return (A + A.conj().T) / 2


def _dag(A):
    return A.conj().T


def _mixer(rng, n, cx, lo=1.0, hi=2.0):
    """well-conditioned invertible matrix (condition number <= hi/lo)"""
    s = np.linspace(lo, hi, n) if n > 1 else np.array([hi])
    return _haar(rng, n, cx) @ np.diag(s) @ _haar(rng, n, cx)


def _E(n, i, j, cx=False):
    M = np.zeros((n, n), dtype=complex if cx else float)
    M[i, j] = 1
    return M


def _perm_matrix(perm, dtype=float):
    n = len(perm)
    P = np.zeros((n, n), dtype=dtype)
    for i, j in enumerate(perm):
        P[j, i] = 1
    return P


def _projector(rng, n, r, cx):
    U = _haar(rng, n, cx)
    V = U[:, :r]
    return V @ _dag(V)


# ---------------------------------------------------------------------------------------------
# builders: (params, rng) -> (args tuple, expected verdict)
# ---------------------------------------------------------------------------------------------
def b_is_hermitian(p, rng):
    v, n, cx = p["v"], p["n"], p["cx"]
    H = _herm(_gin(rng, (n, n), cx))
    if v == "exact":
        return (H,), True
    if v == "noise":
        return (H + 1e-12 * _gin(rng, (n, n), cx),), True
    if v == "int":
        A = rng.integers(-5, 6, (n, n))
        return (A + A.T,), True
    if v == "offdiag":
        if n < 2:
            raise _NA
        H[0, 1] += (0.3 + 0.2j) if cx else 0.3
        return (H,), False
    if v == "imag-diag":
        if not cx:
            raise _NA
        H[n - 1, n - 1] += 0.3j
        return (H,), False
    if v == "nonsquare":
        return (_gin(rng, (n, n + 1), cx),), False
    raise KeyError(v)


def b_is_anti_hermitian(p, rng):
    v, n, cx = p["v"], p["n"], p["cx"]
    A = _gin(rng, (n, n), cx)
    K = (A - _dag(A)) / 2
    if v == "exact":
        if n == 1 and not cx:
            return (np.zeros((1, 1)),), True
        return (K,), True
    if v == "noise":
        return (K + 1e-12 * _gin(rng, (n, n), cx),), True
    if v == "i-times-hermitian":
        if not cx:
            raise _NA
        return (1j * _herm(A),), True
    if v == "real-diag":
        K[0, 0] += 0.3
        return (K,), False
    if v == "offdiag":
        if n < 2:
            raise _NA
        K[0, 1] += 0.3
        return (K,), False
    if v == "hermitian":
        H = _herm(A) + np.eye(n)
        return (H,), False
    if v == "nonsquare":
        return (_gin(rng, (n, n + 1), cx),), False
    raise KeyError(v)


def b_is_symmetric(p, rng):
    v, n, cx = p["v"], p["n"], p["cx"]
    A = _gin(rng, (n, n), cx)
    S = (A + A.T) / 2
    if v == "exact":
        return (S,), True
    if v == "noise":
        return (S + 1e-12 * _gin(rng, (n, n), cx),), True
    if v == "offdiag":
        if n < 2:
            raise _NA
        S[0, 1] += 0.3
        return (S,), False
    if v == "hermitian-not-symmetric":
        if not cx or n < 2:
            raise _NA
        H = _herm(A)
        H[0, 1] = 0.2 + 0.4j
        H[1, 0] = 0.2 - 0.4j
        return (H,), False
    if v == "nonsquare":
        return (_gin(rng, (n, n + 1), cx),), False
    raise KeyError(v)


def _normal(rng, n, cx):
    if cx:
        U = _haar(rng, n, True)
        d = rng.standard_normal(n) + 1j * rng.standard_normal(n)
        return U @ np.diag(d) @ _dag(U)
    Q = _haar(rng, n, False)
    if n >= 2:
        # real normal, neither symmetric nor orthogonal in general: block rotations with scalings
        B = np.zeros((n, n))
        i = 0
        while i + 1 < n:
            a, b = rng.standard_normal(2)
            B[i : i + 2, i : i + 2] = [[a, -b], [b, a]]
            i += 2
        if i < n:
            B[i, i] = rng.standard_normal()
        return Q @ B @ Q.T
    return rng.standard_normal((1, 1))


def b_is_normal(p, rng):
    v, n, cx = p["v"], p["n"], p["cx"]
    N = _normal(rng, n, cx)
    if v == "exact":
        return (N,), True
    if v == "noise":
        return (N + 1e-12 * _gin(rng, (n, n), cx),), True
    if v == "hermitian":
        return (_herm(_gin(rng, (n, n), cx)),), True
    if v == "unitary":
        return (_haar(rng, n, cx),), True
    if v == "triangular":
        if n < 2:
            raise _NA
        U = _haar(rng, n, cx)
        T = np.diag(np.arange(1, n + 1).astype(complex if cx else float))
        T[0, 1] = 0.5
        M = U @ T @ _dag(U)
        return (M,), False
    if v == "nonsquare":
        return (_gin(rng, (n, n + 1), cx),), False
    raise KeyError(v)


def b_is_unitary(p, rng):
    v, n, cx = p["v"], p["n"], p["cx"]
    U = _haar(rng, n, cx)
    if v == "exact":
        return (U,), True
    if v == "noise":
        return (U + 1e-12 * _gin(rng, (n, n), cx),), True
    if v == "perm":
        return (_perm_matrix(list(rng.permutation(n))),), True
    if v == "scaled":
        return (1.1 * U,), False
    if v == "column-scaled":
        D = np.ones(n)
        D[0] = 1.2
        return (U * D,), False
    if v == "isometry":
        W = _haar(rng, n + 1, cx)
        return (W[:, :n],), False
    if v == "singular":
        if n < 2:
            return (np.zeros((1, 1)),), False
        M = U.copy()
        M[:, 0] = M[:, 1]
        return (M,), False
    raise KeyError(v)


def _pseudo_unitary(rng, pp, qq, cx):
    n = pp + qq
    dt = complex if cx else float

    def blk():
        B = np.zeros((n, n), dtype=dt)
        if pp:
            B[:pp, :pp] = _haar(rng, pp, cx)
        if qq:
            B[pp:, pp:] = _haar(rng, qq, cx)
        return B

    A = blk()
    if pp and qq:
        t = 0.7
        Hy = np.eye(n, dtype=dt)
        Hy[0, 0] = Hy[pp, pp] = np.cosh(t)
        Hy[0, pp] = Hy[pp, 0] = np.sinh(t)
        A = A @ Hy @ blk()
    return A


def _sig(pp, qq):
    return np.diag(np.hstack((np.ones(pp), -np.ones(qq))))


def b_is_pseudo_unitary(p, rng):
    v, n, cx = p["v"], p["n"], p["cx"]
    pp = p.get("p", n // 2)
    qq = n - pp
    A = _pseudo_unitary(rng, pp, qq, cx)
    if v == "exact":
        return (A, pp, qq), True
    if v == "noise":
        return (A + 1e-12 * _gin(rng, (n, n), cx), pp, qq), True
    if v == "scaled":
        return (1.1 * A, pp, qq), False
    if v == "wrong-signature":
        if qq < 1:
            raise _NA
        J2 = _sig(pp + 1, qq - 1)
        if np.max(np.abs(_dag(A) @ J2 @ A - J2)) < 1e-2:
            raise _NA
        return (A, pp + 1, qq - 1), False
    if v == "size-mismatch":
        return (A, pp + 1, qq), False
    if v == "nonsquare":
        return (_gin(rng, (n, n + 1), cx), pp, qq), False
    raise KeyError(v)


def _eta(rng, n, cx):
    U = _haar(rng, n, cx)
    d = np.linspace(1.0, 2.0, n) * np.where(np.arange(n) % 2 == 0, 1.0, -1.0)
    return _herm(U @ np.diag(d) @ _dag(U))


def b_is_pseudo_hermitian(p, rng):
    v, n, cx = p["v"], p["n"], p["cx"]
    eta = _eta(rng, n, cx)
    S = _herm(_gin(rng, (n, n), cx))
    H = np.linalg.inv(eta) @ S
    if v == "exact":
        return (H, eta), True
    if v == "noise":
        return (H + 1e-12 * _gin(rng, (n, n), cx), eta), True
    if v == "hermitian-identity-signature":
        return (S, np.eye(n)), True
    if v == "imag-shift":
        if not cx:
            raise _NA
        return (H + 0.3j * np.eye(n), eta), False
    if v == "skew-part":
        if n < 2:
            raise _NA
        A = rng.standard_normal((n, n))
        K = (A - A.T) / 2
        M = H + 0.5 * np.linalg.inv(eta) @ K
        dev = np.max(np.abs(eta @ M @ np.linalg.inv(eta) - _dag(M)))
        if dev < 1e-2:
            raise _NA
        return (M, eta), False
    if v == "size-mismatch":
        return (_herm(_gin(rng, (n + 1, n + 1), cx)), eta), False
    raise KeyError(v)


def _pd(rng, n, cx):
    A = _gin(rng, (n, n), cx)
    return _herm(A @ _dag(A)) + 0.5 * np.eye(n)


def b_is_positive_definite(p, rng):
    v, n, cx = p["v"], p["n"], p["cx"]
    P = _pd(rng, n, cx)
    if v == "exact":
        return (P,), True
    if v == "diag":
        return (np.diag(rng.random(n) + 0.5),), True
    if v == "int-tridiag":
        M = 2 * np.eye(n, dtype=int) - np.eye(n, k=1, dtype=int) - np.eye(n, k=-1, dtype=int)
        return (M,), True
    w = np.linalg.eigvalsh(P)
    if v == "indefinite":
        if n < 2:
            raise _NA
        return (P - ((w[0] + w[-1]) / 2) * np.eye(n),), False
    if v == "negative-definite":
        return (-P,), False
    if v == "one-negative-eigenvalue":
        return (P - (w[0] + 0.3) * np.eye(n),), False
    if v == "non-hermitian":
        if not cx:
            raise _NA
        B = rng.standard_normal((n, n))
        return (P + 0.3j * (B + B.T + 3 * np.eye(n)),), False
    raise KeyError(v)


def b_is_positive_semidefinite(p, rng):
    v, n, cx = p["v"], p["n"], p["cx"]
    A = _gin(rng, (n, n), cx)
    G = A @ _dag(A)
    if v == "fullrank":
        return (G,), True
    if v == "rankdef":
        r = max(1, n // 2)
        B = _gin(rng, (n, r), cx)
        return (B @ _dag(B),), True
    if v == "zero":
        return (np.zeros((n, n)),), True
    if v == "noise":
        return (G + 1e-12 * _herm(_gin(rng, (n, n), cx)),), True
    w = np.linalg.eigvalsh(_herm(G))
    if v == "one-negative-eigenvalue":
        return (_herm(G) - (w[0] + 0.3) * np.eye(n),), False
    if v == "negative-definite":
        return (-G - 0.1 * np.eye(n),), False
    if v == "non-hermitian":
        if n >= 2:
            return (G + 0.3 * _E(n, 0, 1),), False
        if cx:
            return (G + 0.3j,), False
        raise _NA
    if v == "nonsquare":
        return (_gin(rng, (n, n + 1), cx),), False
    raise KeyError(v)


def b_is_projection(p, rng):
    v, n, cx = p["v"], p["n"], p["cx"]
    ranks = {"rank0": 0, "rank1": 1, "rankhalf": max(1, n // 2), "full": n}
    if v in ranks:
        return (_projector(rng, n, ranks[v], cx),), True
    if v == "noise":
        return (_projector(rng, n, max(1, n // 2), cx) + 1e-12 * _gin(rng, (n, n), cx),), True
    if v == "hermitian-not-idempotent":
        U = _haar(rng, n, cx)
        d = np.ones(n)
        d[0] = 0.5
        return (U @ np.diag(d) @ _dag(U),), False
    if v == "negative":
        return (-_projector(rng, n, max(1, n // 2), cx),), False
    if v == "nonsquare":
        return (np.eye(n, n + 1),), False
    raise KeyError(v)


def _oblique(rng, n, r, cx):
    S = _mixer(rng, n, cx)
    d = np.zeros(n)
    d[:r] = 1
    return S @ np.diag(d) @ np.linalg.inv(S)


def b_is_idempotent(p, rng):
    v, n, cx = p["v"], p["n"], p["cx"]
    if v == "orthogonal":
        return (_projector(rng, n, max(1, n // 2), cx),), True
    if v == "oblique":
        return (_oblique(rng, n, max(1, n // 2), cx),), True
    if v == "zero":
        return (np.zeros((n, n)),), True
    if v == "identity":
        return (np.eye(n),), True
    if v == "noise":
        return (_oblique(rng, n, max(1, n // 2), cx) + 1e-12 * _gin(rng, (n, n), cx),), True
    if v == "scaled":
        return (1.2 * _oblique(rng, n, max(1, n // 2), cx),), False
    if v == "perturbed":
        M = _oblique(rng, n, max(1, n // 2), cx) + 0.3 * _E(n, 0, n - 1)
        if np.max(np.abs(M @ M - M)) < 1e-2:
            raise _NA
        return (M,), False
    if v == "nonsquare":
        return (np.eye(n, n + 1),), False
    raise KeyError(v)


def b_is_identity(p, rng):
    v, n, cx = p["v"], p["n"], p["cx"]
    if v == "float":
        return (np.eye(n),), True
    if v == "int":
        return (np.eye(n, dtype=int),), True
    if v == "complex":
        return (np.eye(n, dtype=complex),), True
    if v == "noise":
        return (np.eye(n) + 1e-12 * _gin(rng, (n, n), cx),), True
    if v == "offdiag":
        if n < 2:
            raise _NA
        return (np.eye(n) + (0.1j if cx else 0.1) * _E(n, n - 1, 0, cx),), False
    if v == "scaled":
        return ((1.1 * np.eye(n)),), False
    if v == "phase":
        if not cx:
            return (-np.eye(n),), False
        return (1j * np.eye(n),), False
    if v == "perm":
        if n < 2:
            raise _NA
        return (np.roll(np.eye(n), 1, axis=0),), False
    if v == "diag-entry":
        M = np.eye(n)
        M[n - 1, n - 1] = 0.9
        return (M,), False
    if v == "nonsquare":
        return (np.eye(n, n + 1),), False
    raise KeyError(v)


def b_is_diagonal(p, rng):
    v, n, cx = p["v"], p["n"], p["cx"]
    d = rng.random(n) + 0.5
    if cx:
        d = d * np.exp(2j * np.pi * rng.random(n))
    D = np.diag(d)
    if v == "exact":
        return (D,), True
    if v == "int":
        return (np.diag(np.arange(1, n + 1)),), True
    if v == "fortran-order":
        return (np.asfortranarray(D),), True
    if v == "strided-view":
        big = np.zeros((2 * n, 2 * n), dtype=D.dtype)
        big[::2, ::2] = D
        big[1::2, :] = 7.0
        return (big[::2, ::2],), True
    if v == "offdiag":
        i, j = p["i"], p["j"]
        if i >= n or j >= n or i == j:
            raise _NA
        M = D.copy()
        M[i, j] = (0.1j if cx else 0.1)
        return (M,), False
    if v == "tiny-offdiag":
        if n < 2:
            raise _NA
        M = D.copy()
        M[n - 1, 0] = 1e-3
        return (M,), False
    if v == "nonsquare":
        M = np.zeros((n, n + 1), dtype=D.dtype)
        M[:, :n] = D
        return (M,), False
    raise KeyError(v)


_PYTH = [3 + 4j, 5 + 12j, 8 + 15j, 4 - 3j, -12 + 5j, 6 + 8j, 2 + 0j, 0 - 3j]


def _dd_int(rng, n, cx):
    """integer(-valued) matrix with |a_ii| == sum_j |a_ij| exactly in every row"""
    if cx:
        M = np.zeros((n, n), dtype=complex)
        for i in range(n):
            for j in range(n):
                if i != j:
                    M[i, j] = _PYTH[int(rng.integers(len(_PYTH)))]
        for i in range(n):
            s = float(np.sum(np.abs(M[i])))
            M[i, i] = s * [1, -1, 1j, -1j][int(rng.integers(4))]
        return M
    M = rng.integers(-3, 4, (n, n)).astype(float)
    for i in range(n):
        M[i, i] = 0
        M[i, i] = np.sum(np.abs(M[i])) * (1 if rng.random() < 0.5 else -1)
    return M


def _dd_margin(rng, n, cx, margin):
    M = _gin(rng, (n, n), cx)
    for i in range(n):
        M[i, i] = 0
        s = np.sum(np.abs(M[i]))
        ph = np.exp(2j * np.pi * rng.random()) if cx else (1 if rng.random() < 0.5 else -1)
        M[i, i] = (s + margin) * ph
    return M


def b_is_diagonally_dominant(p, rng):
    v, n, cx = p["v"], p["n"], p["cx"]
    strict = bool(p.get("strict", True))
    if v == "margin":
        return (_dd_margin(rng, n, cx, 0.5), strict), True
    if v == "equality-int":
        if n < 2:
            # 1x1: |a| > 0 strictly unless a == 0; use a == 0 (empty row sum): 0 >= 0 True, 0 > 0 False
            return (np.zeros((1, 1)), strict), (not strict)
        return (_dd_int(rng, n, cx), strict), (not strict)
    if v == "deficient-row":
        if n < 2:
            raise _NA
        M = _dd_margin(rng, n, cx, 0.5)
        i = n - 1
        s = np.sum(np.abs(M[i])) - np.abs(M[i, i])
        if s < 0.6:
            M[i, 0] += 1.0
            s = np.sum(np.abs(M[i])) - np.abs(M[i, i])
        M[i, i] = (s - 0.5) * (M[i, i] / np.abs(M[i, i]))
        return (M, strict), False
    if v == "nonsquare":
        M = np.zeros((n, n + 1))
        M[:, :n] = np.eye(n)
        return (M, strict), False
    raise KeyError(v)


def _density(rng, n, cx, r=None):
    r = r or n
    G = _gin(rng, (n, r), cx)
    rho = G @ _dag(G)
    return rho / np.trace(rho).real


def b_is_density(p, rng):
    v, n, cx = p["v"], p["n"], p["cx"]
    if v == "mixed":
        return (_density(rng, n, cx),), True
    if v == "pure":
        return (_density(rng, n, cx, 1),), True
    if v == "maxmixed":
        return (np.eye(n) / n,), True
    if v == "trace-1.1":
        return (1.1 * _density(rng, n, cx),), False
    if v == "trace-0.9":
        return (0.9 * _density(rng, n, cx),), False
    if v == "negative-eigenvalue":
        if n < 2:
            return (np.array([[-1.0]]),), False
        U = _haar(rng, n, cx)
        d = rng.random(n) + 0.1
        d[0] = 0
        d = 1.2 * d / d.sum()
        d[0] = -0.2
        return (U @ np.diag(d) @ _dag(U),), False
    if v == "non-hermitian":
        if n < 2:
            raise _NA
        return (_density(rng, n, cx) + 0.2 * _E(n, 0, 1),), False
    if v == "nonsquare":
        return (np.eye(n, n + 1) / n,), False
    raise KeyError(v)


def b_is_square(p, rng):
    r, c = p["r"], p["c"]
    return (_gin(rng, (r, c), p["cx"]),), (r == c)


def b_is_permutation(p, rng):
    v, n, cx = p["v"], p["n"], p["cx"]
    if v == "indexed":
        perms = list(itertools.permutations(range(n)))
        perm = perms[p["k"] % len(perms)]
        return (_perm_matrix(perm, complex if cx else float),), True
    perm = list(rng.permutation(n))
    P = _perm_matrix(perm, complex if cx else float)
    if v == "random":
        return (P,), True
    if v == "int":
        return (_perm_matrix(perm, int),), True
    if v == "neg-entries":
        if n < 2:
            raise _NA
        M = np.eye(n)
        M[:2, :2] = [[2, -1], [-1, 2]]
        return (M,), False
    if v == "doubly-stochastic":
        if n < 2:
            raise _NA
        return (0.5 * np.eye(n) + 0.5 * np.roll(np.eye(n), 1, axis=0),), False
    if v == "duplicate-row":
        if n < 2:
            raise _NA
        M = P.copy()
        M[1] = M[0]
        return (M,), False
    if v == "zero-row":
        M = P.copy()
        M[0] = 0
        return (M,), False
    if v == "scaled":
        return (2 * P,), False
    if v == "nonsquare":
        return (np.eye(n, n + 1),), False
    raise KeyError(v)


def _circulant(c):
    n = len(c)
    return np.array([[c[(j - i) % n] for j in range(n)] for i in range(n)])


def b_is_circulant(p, rng):
    v, n, cx = p["v"], p["n"], p["cx"]
    c = _gin(rng, (n,), cx)
    C = _circulant(c)
    if v == "exact":
        return (C,), True
    if v == "int":
        return (_circulant(np.arange(1, n + 1)),), True
    if v == "noise":
        return (C + 1e-12 * _gin(rng, (n, n), cx),), True
    if v == "entry":
        if n < 2:
            raise _NA
        M = C.copy()
        M[n - 1, 0] += 0.3
        return (M,), False
    if v == "left-circulant":
        # rows rotate to the LEFT (anti-circulant): not circulant for n >= 3 with generic entries
        if n < 3:
            raise _NA
        M = np.array([[c[(j + i) % n] for j in range(n)] for i in range(n)])
        if np.max(np.abs(M[1] - np.roll(M[0], 1))) < 1e-2:
            raise _NA
        return (M,), False
    if v == "toeplitz":
        if n < 3:
            raise _NA
        t = _gin(rng, (2 * n - 1,), cx)
        M = np.array([[t[j - i + n - 1] for j in range(n)] for i in range(n)])
        if np.max(np.abs(M[1] - np.roll(M[0], 1))) < 1e-2:
            raise _NA
        return (M,), False
    if v == "nonsquare":
        return (np.ones((n, n + 1)),), False
    raise KeyError(v)


def _right_stochastic(rng, n):
    M = rng.random((n, n)) + 0.05
    return M / M.sum(axis=1, keepdims=True)


def _doubly_stochastic(rng, n):
    w = rng.random(4) + 0.1
    w /= w.sum()
    M = np.zeros((n, n))
    for k in range(4):
        M += w[k] * _perm_matrix(list(rng.permutation(n)))
    return M


def b_is_stochastic(p, rng):
    v, n, t = p["v"], p["n"], p["type"]
    if v == "built":
        M = _doubly_stochastic(rng, n) if t == "doubly" else _right_stochastic(rng, n)
        return ((M.T if t == "left" else M), t), True
    if v == "doubly-as":
        return (_doubly_stochastic(rng, n), t), True
    if v == "perm":
        return (_perm_matrix(list(rng.permutation(n))), t), True
    if v == "sum-off":
        M = _doubly_stochastic(rng, n)
        M[n - 1] *= 1.1
        M[:, n - 1] *= 1.1
        return (M, t), False
    if v == "neg-entry":
        if n < 2:
            raise _NA
        M = _doubly_stochastic(rng, n) + 0.0
        # keep all row and column sums equal to one, make one entry negative
        M = np.eye(n)
        M[0, 0], M[0, 1], M[1, 0], M[1, 1] = 1.2, -0.2, -0.2, 1.2
        return (M, t), False
    if v == "other-side-only":
        if n < 2 or t == "right":
            raise _NA
        M = _right_stochastic(rng, n)
        if np.max(np.abs(M.sum(axis=0) - 1)) < 1e-2:
            raise _NA
        return (M, t), False  # right stochastic, asked for left / doubly
    if v == "other-side-only-right":
        if n < 2 or t == "left":
            raise _NA
        M = _right_stochastic(rng, n).T
        if np.max(np.abs(M.sum(axis=1) - 1)) < 1e-2:
            raise _NA
        return (M, t), False
    if v == "nonsquare":
        M = rng.random((n, n + 1))
        M = M / M.sum(axis=1, keepdims=True)
        return (M, t), False
    raise KeyError(v)


def b_is_nonnegative(p, rng):
    v, n, t = p["v"], p["n"], p["type"]
    if v == "random":
        if t == "doubly":
            B = rng.random((n, n))
            return (B @ B.T, t), True
        return (rng.random((n, n)), t), True
    if v == "with-zeros":
        if t == "doubly":
            return (np.eye(n), t), True
        M = rng.random((n, n))
        M[0, 0] = 0.0
        return (M, t), True
    if v == "int":
        if t == "doubly":
            return (np.ones((n, n), dtype=int) + np.eye(n, dtype=int), t), True
        return (rng.integers(0, 4, (n, n)), t), True
    if v == "neg-entry":
        if t == "doubly":
            if n < 2:
                return (np.array([[-0.5]]), t), False
            M = 2 * np.eye(n)
            M[0, 1] = M[1, 0] = -0.5  # PSD but not entrywise nonnegative
            return (M, t), False
        M = rng.random((n, n))
        M[n - 1, 0] = -0.1
        return (M, t), False
    if v == "indefinite":
        if t != "doubly" or n < 2:
            raise _NA
        M = np.ones((n, n)) - np.eye(n) + 0.1 * np.eye(n)  # eigenvalue 0.1 - 1 < 0
        return (M, t), False
    raise KeyError(v)


def b_is_positive(p, rng):
    v, n = p["v"], p["n"]
    M = rng.random((n, n)) + 0.1
    if v == "random":
        return (M,), True
    if v == "rectangular":
        return (rng.random((n, n + 2)) + 0.1,), True
    if v == "neg-entry":
        M[n - 1, 0] = -0.1
        return (M,), False
    if v == "zero-entry":
        M[0, n - 1] = 0.0
        return (M,), False
    raise KeyError(v)


def b_is_commuting(p, rng):
    v, n, cx = p["v"], p["n"], p["cx"]
    U = _haar(rng, n, cx)
    A = U @ np.diag(rng.standard_normal(n)) @ _dag(U)
    B = U @ np.diag(rng.standard_normal(n)) @ _dag(U)
    if v == "common-eigenbasis":
        return (A, B), True
    if v == "polynomial":
        M = _gin(rng, (n, n), cx) / max(1, n)
        return (M, 0.3 * np.eye(n) - 0.7 * M + 0.2 * M @ M), True
    if v == "with-identity":
        return (_gin(rng, (n, n), cx), 2.5 * np.eye(n)), True
    if v == "kron-factors":
        if n not in (4, 6):
            raise _NA
        a = n // 2
        X = _gin(rng, (2, 2), cx)
        Y = _gin(rng, (a, a), cx)
        return (np.kron(X, np.eye(a)), np.kron(np.eye(2), Y)), True
    if v == "generic":
        if n < 2:
            raise _NA
        X, Y = _gin(rng, (n, n), cx), _gin(rng, (n, n), cx)
        if np.max(np.abs(X @ Y - Y @ X)) < 1e-2:
            raise _NA
        return (X, Y), False
    if v == "perturbed":
        if n < 2:
            raise _NA
        B2 = B + 0.3 * _E(n, 0, 1)
        if np.max(np.abs(A @ B2 - B2 @ A)) < 1e-2:
            raise _NA
        return (A, B2), False
    if v == "pauli-xz":
        if n != 2:
            raise _NA
        return (np.array([[0, 1], [1, 0]]), np.array([[1, 0], [0, -1]])), False
    raise KeyError(v)


def b_is_orthonormal(p, rng):
    v, n, cx = p["v"], p["n"], p["cx"]
    k = p.get("k", n)
    if k < 2 or k > n:
        raise _NA
    V = _haar(rng, n, cx)[:k, :]
    if v == "rows-of-unitary":
        return (V,), True
    if v == "noise":
        return (V + 1e-12 * _gin(rng, (k, n), cx),), True
    if v == "list-input":
        return ([V[i].copy() for i in range(k)],), True
    if v == "orthogonal-not-normalised":
        W = V.copy()
        W[0] *= 1.2
        return (W,), False
    if v == "normalised-not-orthogonal":
        W = V.copy()
        w = W[0] + 0.3 * W[1]
        W[0] = w / np.linalg.norm(w)
        return (W,), False
    if v == "list-input-not-orthogonal":
        W = V.copy()
        w = W[0] + 0.3 * W[1]
        W[0] = w / np.linalg.norm(w)
        return ([W[i].copy() for i in range(k)],), False
    raise KeyError(v)


def b_is_linearly_independent(p, rng):
    v, n, cx = p["v"], p["n"], p["cx"]
    k = p.get("k", n)
    if v == "independent":
        if k > n or k < 1:
            raise _NA
        V = _haar(rng, n, cx)[:, :k] @ _mixer(rng, k, cx)
        return ([V[:, i].copy() for i in range(k)],), True
    if v == "column-vectors":
        if k > n or k < 1:
            raise _NA
        V = _haar(rng, n, cx)[:, :k] @ _mixer(rng, k, cx)
        return ([V[:, i].reshape(-1, 1).copy() for i in range(k)],), True
    if v == "combination":
        if k < 2 or k > n + 1:
            raise _NA
        V = _haar(rng, n, cx)[:, : k - 1] @ _mixer(rng, k - 1, cx) if k - 1 <= n else None
        c = _gin(rng, (k - 1,), cx)
        last = V @ c
        vs = [V[:, i].copy() for i in range(k - 1)] + [last]
        return (vs,), False
    if v == "repeated":
        if n < 1:
            raise _NA
        x = _gin(rng, (n,), cx)
        return ([x, 2.0 * x],), False
    if v == "too-many":
        V = _gin(rng, (n, n + 1), cx)
        return ([V[:, i].copy() for i in range(n + 1)],), False
    if v == "zero-vector":
        x = _gin(rng, (n,), cx)
        return ([x, np.zeros(n)],), False
    raise KeyError(v)


def _pascal(n):
    from math import comb

    return np.array([[comb(i + j, i) for j in range(n)] for i in range(n)], dtype=float)


def _vandermonde(n):
    x = np.arange(1, n + 1, dtype=float)
    return np.array([[x[i] ** j for j in range(n)] for i in range(n)])


def b_is_totally_positive(p, rng):
    v, n, cx = p["v"], p["n"], p["cx"]
    base = _pascal(n) if p.get("family", "pascal") == "pascal" else _vandermonde(n)
    if cx:
        base = base.astype(complex)
    if v == "exact":
        return (base,), True
    if v == "int":
        return (base.real.astype(int),), True
    if v == "neg-entry":
        M = base.copy()
        M[n - 1, 0] = -0.5
        return (M,), False
    if v == "row-swap":
        if n < 2:
            raise _NA
        M = base.copy()
        M[[0, 1]] = M[[1, 0]]
        return (M,), False
    if v == "complex-entry":
        if not cx:
            raise _NA
        M = base.copy()
        M[0, n - 1] += 0.5j
        return (M,), False
    if v in ("rect-wide", "rect-tall"):  # rectangular totally positive matrices: the first n rows (columns) of a larger one
        big = _vandermonde(n + 2)
        M = big[:n, :] if v == "rect-wide" else big[:, :n]
        return (M.astype(complex) if cx else M,), True
    if v in ("rect-wide-bad", "rect-tall-bad"):  # the only negative minors involve the rows / columns OUTSIDE the leading square block
        if n < 2:
            raise _NA
        big = _vandermonde(n + 2)
        M = (big[:n, :] if v == "rect-wide-bad" else big[:, :n]).copy()
        if v == "rect-wide-bad":
            M[:, [n, n + 1]] = M[:, [n + 1, n]]
        else:
            M[[n, n + 1], :] = M[[n + 1, n], :]
        return (M.astype(complex) if cx else M,), False
    raise KeyError(v)


# ---------------------------------------------------------------------------------------------
# state-set predicates
# ---------------------------------------------------------------------------------------------
def b_is_pure(p, rng):
    v, n, cx = p["v"], p["n"], p["cx"]
    pure = lambda: _density(rng, n, cx, 1)  # noqa: E731

    def mixed():
        if n < 2:
            raise _NA
        U = _haar(rng, n, cx)
        d = rng.random(n) + 0.2
        d = d / d.sum()
        d = np.minimum(d, 0.8)
        d = d / d.sum()
        if d.max() > 0.9:
            raise _NA
        return U @ np.diag(d) @ _dag(U)

    if v == "pure":
        return (pure(),), True
    if v == "basis-state":
        M = np.zeros((n, n))
        M[n - 1, n - 1] = 1
        return (M,), True
    if v == "list-all-pure":
        return ([pure() for _ in range(3)],), True
    if v == "mixed":
        return (mixed(),), False
    if v == "maxmixed":
        if n < 2:
            raise _NA
        return (np.eye(n) / n,), False
    if v == "list-one-mixed":
        return ([pure(), mixed(), pure()],), False
    raise KeyError(v)


def b_is_mixed(p, rng):
    args, exp = b_is_pure(p, rng)
    if isinstance(args[0], list):
        raise _NA
    return args, (not exp)


def b_is_ensemble(p, rng):
    v, n, cx = p["v"], p["n"], p["cx"]
    k = 3
    pr = rng.random(k) + 0.1
    pr /= pr.sum()
    ops = [pr[i] * _density(rng, n, cx, 1 + (i % n)) for i in range(k)]
    if v == "weighted-states":
        return (ops,), True
    if v == "single-state":
        return ([_density(rng, n, cx)],), True
    if v == "with-zero-operator":
        return (ops + [np.zeros((n, n))],), True
    if v == "total-0.9":
        return ([0.9 * o for o in ops],), False
    if v == "total-1.1":
        return ([1.1 * o for o in ops],), False
    if v == "negative-operator":
        if n < 2:
            return ([np.array([[1.5]]), np.array([[-0.5]])],), False
        U = _haar(rng, n, cx)
        d = np.zeros(n)
        d[0], d[1] = 0.3, -0.3
        bad = U @ np.diag(d) @ _dag(U)
        return (ops + [bad],), False  # traces still sum to one
    if v == "non-hermitian-operator":
        if n < 2:
            raise _NA
        return (ops[:2] + [ops[2] + 0.2 * _E(n, 0, 1)],), False
    raise KeyError(v)


def _fmt_vec(x, form):
    if form == "1d":
        return x.copy()
    if form == "column":
        return x.reshape(-1, 1).copy()
    if form == "list":
        return [complex(t) if np.iscomplexobj(x) else float(t) for t in x]
    raise KeyError(form)


def b_is_mutually_orthogonal(p, rng):
    v, n, cx = p["v"], p["n"], p["cx"]
    k = p.get("k", n)
    form = p.get("form", "1d")
    if k < 2 or k > n:
        raise _NA
    V = _haar(rng, n, cx)[:, :k] * (rng.random(k) + 0.5)
    if v == "orthogonal":
        return ([_fmt_vec(V[:, i], form) for i in range(k)],), True
    if v == "noise":
        V = V + 1e-12 * _gin(rng, (n, k), cx)
        return ([_fmt_vec(V[:, i], form) for i in range(k)],), True
    if v == "overlap":
        W = V.copy()
        W[:, k - 1] = W[:, k - 1] + 0.2 * W[:, 0]
        return ([_fmt_vec(W[:, i], form) for i in range(k)],), False
    if v == "repeated":
        W = V.copy()
        W[:, 1] = W[:, 0]
        return ([_fmt_vec(W[:, i], form) for i in range(k)],), False
    raise KeyError(v)


def _mub_set(d):
    """complete set of d+1 MUBs for prime d (independent closed form), as list of d x d arrays with basis vectors in columns"""
    w = np.exp(2j * np.pi / d)
    bases = [np.eye(d, dtype=complex)]
    if d == 2:
        bases.append(np.array([[1, 1], [1, -1]], dtype=complex) / np.sqrt(2))
        bases.append(np.array([[1, 1], [1j, -1j]], dtype=complex) / np.sqrt(2))
        return bases
    for a in range(d):
        B = np.array([[w ** ((a * j * j + k * j) % d) for k in range(d)] for j in range(d)]) / np.sqrt(d)
        bases.append(B)
    return bases


def _fourier(d):
    w = np.exp(2j * np.pi / d)
    return np.array([[w ** ((j * k) % d) for k in range(d)] for j in range(d)]) / np.sqrt(d)


def _max_bias(bases):
    d = bases[0].shape[0]
    worst = 0.0
    for a in range(len(bases)):
        for b in range(a + 1, len(bases)):
            worst = max(worst, float(np.max(np.abs(np.abs(_dag(bases[a]) @ bases[b]) ** 2 - 1.0 / d))))
    return worst


def b_is_mutually_unbiased_basis(p, rng):
    v, n = p["v"], p["n"]
    form = p.get("form", "1d")
    flat = lambda bases: [_fmt_vec(B[:, i], form) for B in bases for i in range(B.shape[1])]  # noqa: E731
    if v == "standard+fourier":
        return (flat([np.eye(n, dtype=complex), _fourier(n)]),), True
    if v == "complete-prime":
        if n not in (2, 3, 5):
            raise _NA
        return (flat(_mub_set(n)),), True
    if v == "three-of-complete":
        if n not in (3, 5):
            raise _NA
        return (flat(_mub_set(n)[1:4]),), True
    if v == "rotated-pair":
        U = _haar(rng, n, True)
        return (flat([U, U @ _fourier(n)]),), True
    if v == "biased-pair":
        if n < 2:
            raise _NA
        W = _haar(rng, n, True)
        bases = [np.eye(n, dtype=complex), W]
        if _max_bias(bases) < 0.05:
            raise _NA
        return (flat(bases),), False
    if v == "one-biased-of-three":
        if n not in (2, 3, 5):
            raise _NA
        S = _mub_set(n)
        th = 0.4
        R = np.eye(n, dtype=complex)
        R[:2, :2] = [[np.cos(th), -np.sin(th)], [np.sin(th), np.cos(th)]]
        bases = [S[0], S[1], R @ S[2]]
        if _max_bias(bases) < 0.05:
            raise _NA
        return (flat(bases),), False
    if v == "wrong-count":
        if n < 2:
            raise _NA
        return (flat([np.eye(n, dtype=complex), _fourier(n)])[:-1],), False
    if v == "blocks-not-orthonormal":
        # second block is a basis unbiased to e_0 only; first block repeats e_0: not a set of orthonormal bases
        if n < 2:
            raise _NA
        first = np.zeros((n, n), dtype=complex)
        first[0, :] = 1.0
        return (flat([first, _fourier(n)]),), False
    raise KeyError(v)


def _ket(d, i):
    x = np.zeros(d)
    x[i] = 1
    return x


def _upb(name):
    s2, s3 = np.sqrt(2), np.sqrt(3)
    if name == "tiles":
        e = [_ket(3, i) for i in range(3)]
        return [np.kron(e[0], e[0] - e[1]) / s2, np.kron(e[2], e[1] - e[2]) / s2, np.kron(e[0] - e[1], e[2]) / s2, np.kron(e[1] - e[2], e[0]) / s2, np.kron(e[0] + e[1] + e[2], e[0] + e[1] + e[2]) / 3], [3, 3]
    if name == "shifts":
        z0, z1 = _ket(2, 0), _ket(2, 1)
        pl, mi = (z0 + z1) / s2, (z0 - z1) / s2
        k3 = lambda a, b, c: np.kron(np.kron(a, b), c)  # noqa: E731
        return [k3(z0, z0, z0), k3(pl, z1, mi), k3(z1, mi, pl), k3(mi, pl, z1)], [2, 2, 2]
    if name in ("tiles-x-qubit", "qubit-x-tiles", "shifts-x-qutrit"):
        # three parties with unequal, non-palindromic local dimensions: a UPB tensored with a complete basis of one more party is a UPB
        base, bd = _upb("tiles" if "tiles" in name else "shifts")
        k = 3 if name == "shifts-x-qutrit" else 2
        basis = [_ket(k, i) for i in range(k)]
        if name == "qubit-x-tiles":
            return [np.kron(b, v) for b in basis for v in base], [k] + bd
        return [np.kron(v, b) for v in base for b in basis], bd + [k]
    if name == "pyramid":
        h = np.sqrt(1 + np.sqrt(5)) / 2
        N = 2 / np.sqrt(5 + np.sqrt(5))
        vs = [N * np.array([np.cos(2 * np.pi * j / 5), np.sin(2 * np.pi * j / 5), h]) for j in range(5)]
        return [np.kron(vs[j], vs[(2 * j) % 5]) for j in range(5)], [3, 3]
    raise KeyError(name)


def b_is_unextendible_product_basis(p, rng):
    v, name = p["v"], p.get("upb", "tiles")
    vecs, dims = _upb(name)
    if v == "upb":
        return (vecs, dims), True
    if v == "one-removed":
        k = p.get("k", 0) % len(vecs)
        return ([x for i, x in enumerate(vecs) if i != k], dims), False
    if v == "two-product-vectors":
        return (vecs[:2], dims), False
    if v.startswith("asym-"):
        # extendible product sets that are NOT symmetric between the parties (the missing product vector is found only if the
        # blocks of a partition are tried in every assignment to the parties)
        s2 = np.sqrt(2)
        z0, z1 = _ket(2, 0), _ket(2, 1)
        pl, mi = (z0 + z1) / s2, (z0 - z1) / s2
        e = [_ket(3, i) for i in range(3)]
        if v == "asym-2x2":
            return ([np.kron(z0, z0), np.kron(z1, z0), np.kron(pl, z1)], [2, 2]), False
        if v == "asym-2x2-swapped":
            return ([np.kron(z0, z0), np.kron(z0, z1), np.kron(z1, pl)], [2, 2]), False
        if v == "asym-2x3":
            return ([np.kron(z0, e[0]), np.kron(z1, e[0]), np.kron(pl, e[1]), np.kron(mi, e[1]), np.kron(z0, e[2])], [2, 3]), False
        if v == "asym-3x2":
            return ([np.kron(e[0], z0), np.kron(e[0], z1), np.kron(e[1], pl), np.kron(e[1], mi), np.kron(e[2], z0)], [3, 2]), False
    raise KeyError(v)


# ---------------------------------------------------------------------------------------------
# property-preserving transformations: (args, rng, p) -> args   (they preserve the property AND its violation margin)
# ---------------------------------------------------------------------------------------------
def _on0(f):
    def g(args, rng, p):
        return (f(args[0], rng, p),) + tuple(args[1:])

    return g


def _sq(M):
    M = np.asarray(M)
    if M.ndim != 2 or M.shape[0] != M.shape[1]:
        raise _NA
    return M


T = {
    "conjU": _on0(lambda M, rng, p: (lambda U: U @ _sq(M) @ _dag(U))(_haar(rng, _sq(M).shape[0], p["cx"]))),
    "conjU-sym": _on0(lambda M, rng, p: (lambda U: _herm(U @ _sq(M) @ _dag(U)))(_haar(rng, _sq(M).shape[0], p["cx"]))),
    "congT": _on0(lambda M, rng, p: (lambda Q: Q @ _sq(M) @ Q.T)(_haar(rng, _sq(M).shape[0], p["cx"]))),
    "similarity": _on0(lambda M, rng, p: (lambda S: S @ _sq(M) @ np.linalg.inv(S))(_mixer(rng, _sq(M).shape[0], p["cx"]))),
    "transpose": _on0(lambda M, rng, p: np.asarray(M).T.copy()),
    "conj": _on0(lambda M, rng, p: np.asarray(M).conj()),
    "dagger": _on0(lambda M, rng, p: _dag(np.asarray(M))),
    "scale-real": _on0(lambda M, rng, p: -2.5 * np.asarray(M)),
    "scale-pos": _on0(lambda M, rng, p: 3.0 * np.asarray(M)),
    "scale-int": _on0(lambda M, rng, p: 2 * np.asarray(M)),
    "scale-complex": _on0(lambda M, rng, p: ((0.6 - 1.7j) if p["cx"] else -1.3) * np.asarray(M)),
    "phase": _on0(lambda M, rng, p: (np.exp(0.7j) if p["cx"] else -1.0) * np.asarray(M)),
    "shift-real": _on0(lambda M, rng, p: _sq(M) + 1.5 * np.eye(_sq(M).shape[0])),
    "shift-imag": _on0(lambda M, rng, p: _sq(M) + (1.5j if p["cx"] else 0.0) * np.eye(_sq(M).shape[0])),
    "shift-complex": _on0(lambda M, rng, p: _sq(M) + ((0.4 + 1.5j) if p["cx"] else 0.4) * np.eye(_sq(M).shape[0])),
    "mulU": _on0(lambda M, rng, p: _haar(rng, np.asarray(M).shape[0], p["cx"]) @ np.asarray(M)),
    "complement": _on0(lambda M, rng, p: np.eye(_sq(M).shape[0]) - _sq(M)),
    "perm-conj": _on0(lambda M, rng, p: (lambda P: P @ _sq(M) @ P.T)(_perm_matrix(list(rng.permutation(_sq(M).shape[0])), int))),
    "cyclic-conj": _on0(lambda M, rng, p: np.roll(np.roll(_sq(M), 1, axis=0), 1, axis=1)),
    "reverse-both": _on0(lambda M, rng, p: np.asarray(M)[::-1, ::-1].copy()),
    "row-scale-int": _on0(lambda M, rng, p: np.diag(2 ** np.arange(np.asarray(M).shape[0])) @ np.asarray(M)),
    "pos-diag-scalings": _on0(lambda M, rng, p: np.diag(np.arange(1, np.asarray(M).shape[0] + 1)) @ np.asarray(M) @ np.diag(np.arange(2, np.asarray(M).shape[1] + 2))),
}


def _t_swap_args(args, rng, p):
    return (args[1], args[0]) + tuple(args[2:])


def _t_simul_similarity(args, rng, p):
    S = _mixer(rng, args[0].shape[0], p["cx"])
    Si = np.linalg.inv(S)
    return (S @ args[0] @ Si, S @ args[1] @ Si)


def _t_scale_both(args, rng, p):
    return (2.0 * args[0], -0.5 * args[1])


def _t_pu_product(args, rng, p):
    A, pp, qq = args
    if A.shape[0] != pp + qq or A.shape[0] != A.shape[1]:
        raise _NA
    return (_pseudo_unitary(rng, pp, qq, p["cx"]) @ A, pp, qq)


def _t_pu_inverse(args, rng, p):
    A, pp, qq = args
    if A.shape[0] != pp + qq or A.shape[0] != A.shape[1]:
        raise _NA
    return (np.linalg.inv(A), pp, qq)


def _t_ph_add(args, rng, p):
    H, eta = args
    if H.shape != eta.shape:
        raise _NA
    S = _herm(_gin(rng, eta.shape, p["cx"]))
    return (H + np.linalg.inv(eta) @ S, eta)


def _t_ph_similarity(args, rng, p):
    H, eta = args
    if H.shape != eta.shape:
        raise _NA
    S = _mixer(rng, eta.shape[0], p["cx"])
    Si = np.linalg.inv(S)
    return (S @ H @ Si, _herm(_dag(Si) @ eta @ Si))


def _t_stoch_transpose(args, rng, p):
    M, t = args
    return (np.asarray(M).T.copy(), {"left": "right", "right": "left", "doubly": "doubly"}[t])


def _t_stoch_perm(args, rng, p):
    M, t = args
    n, m = M.shape
    return (_perm_matrix(list(rng.permutation(n))) @ M @ _perm_matrix(list(rng.permutation(m))), t)


def _t_rows_unitary(args, rng, p):
    V = np.asarray(args[0])
    return (V @ _haar(rng, V.shape[1], p["cx"]),)


def _t_rows_perm_phase(args, rng, p):
    V = np.asarray(args[0])
    k = V.shape[0]
    ph = np.exp(2j * np.pi * rng.random(k)) if p["cx"] else rng.choice([-1.0, 1.0], k)
    return ((V * ph[:, None])[rng.permutation(k)],)


def _vlist_apply(f):
    def g(args, rng, p):
        vs = [np.asarray(x) for x in args[0]]
        shp = vs[0].shape
        M = np.column_stack([x.reshape(-1) for x in vs])
        M2 = f(M, rng, p)
        return ([M2[:, i].reshape(shp).copy() for i in range(M2.shape[1])],) + tuple(args[1:])

    return g


T_VL = {
    "apply-unitary": _vlist_apply(lambda M, rng, p: _haar(rng, M.shape[0], p["cx"] or np.iscomplexobj(M)) @ M),
    "apply-invertible": _vlist_apply(lambda M, rng, p: _mixer(rng, M.shape[0], p["cx"]) @ M),
    "mix-invertible": _vlist_apply(lambda M, rng, p: M @ _mixer(rng, M.shape[1], p["cx"])),
    "scale-each": _vlist_apply(lambda M, rng, p: M * ((rng.random(M.shape[1]) + 0.5) * (np.exp(2j * np.pi * rng.random(M.shape[1])) if (p["cx"] or np.iscomplexobj(M)) else rng.choice([-1.0, 1.0], M.shape[1])))),
    "phase-each": _vlist_apply(lambda M, rng, p: M * np.exp(2j * np.pi * rng.random(M.shape[1]))),
    "permute": _vlist_apply(lambda M, rng, p: M[:, rng.permutation(M.shape[1])]),
}


def _t_states_conjU(args, rng, p):
    if isinstance(args[0], list):
        n = args[0][0].shape[0]
        U = _haar(rng, n, p["cx"])
        return ([U @ r @ _dag(U) for r in args[0]],)
    U = _haar(rng, args[0].shape[0], p["cx"])
    return (U @ args[0] @ _dag(U),)


def _t_states_permute(args, rng, p):
    if not isinstance(args[0], list):
        raise _NA
    idx = rng.permutation(len(args[0]))
    return ([args[0][i] for i in idx],)


def _t_states_split(args, rng, p):
    if not isinstance(args[0], list):
        raise _NA
    return ([0.25 * args[0][0], 0.75 * args[0][0]] + list(args[0][1:]),)


def _t_mub_within(args, rng, p):
    vs = args[0]
    d = np.asarray(vs[0]).reshape(-1).shape[0]
    if len(vs) % d:
        raise _NA
    out = []
    for b in range(len(vs) // d):
        blk = vs[b * d : (b + 1) * d]
        out += [blk[i] for i in rng.permutation(d)]
    return (out,)


def _t_mub_order(args, rng, p):
    vs = args[0]
    d = np.asarray(vs[0]).reshape(-1).shape[0]
    if len(vs) % d:
        raise _NA
    nb = len(vs) // d
    out = []
    for b in rng.permutation(nb):
        out += vs[b * d : (b + 1) * d]
    return (out,)


def _t_upb_local(args, rng, p):
    vecs, dims = args
    U = None
    for d in dims:
        W = _haar(rng, d, True)
        U = W if U is None else np.kron(U, W)
    return ([U @ x for x in vecs], dims)


def _t_upb_perm_phase(args, rng, p):
    vecs, dims = args
    idx = rng.permutation(len(vecs))
    return ([np.exp(2j * np.pi * rng.random()) * vecs[i] for i in idx], dims)


# ---------------------------------------------------------------------------------------------
# registry
# ---------------------------------------------------------------------------------------------
# name: (module, builder, true variants, false variants, invariance transformations, base variants used for invariance (true, false))
PREDS = {
    "is_hermitian": ("toqito.matrix_props", b_is_hermitian, ["exact", "noise", "int"], ["offdiag", "imag-diag", "nonsquare"], ["conjU", "transpose", "conj", "scale-real", "shift-real"], ("exact", ["offdiag", "imag-diag"])),
    "is_anti_hermitian": ("toqito.matrix_props", b_is_anti_hermitian, ["exact", "noise", "i-times-hermitian"], ["real-diag", "offdiag", "hermitian", "nonsquare"], ["conjU", "transpose", "conj", "scale-real", "shift-imag"], ("exact", ["real-diag"])),
    "is_symmetric": ("toqito.matrix_props", b_is_symmetric, ["exact", "noise"], ["offdiag", "hermitian-not-symmetric", "nonsquare"], ["congT", "transpose", "scale-complex", "shift-complex"], ("exact", ["offdiag"])),
    "is_normal": ("toqito.matrix_props", b_is_normal, ["exact", "noise", "hermitian", "unitary"], ["triangular", "nonsquare"], ["conjU", "scale-complex", "shift-complex", "dagger", "transpose"], ("exact", ["triangular"])),
    "is_unitary": ("toqito.matrix_props", b_is_unitary, ["exact", "noise", "perm"], ["scaled", "column-scaled", "isometry", "singular"], ["mulU", "dagger", "transpose", "conj", "phase", "conjU"], ("exact", ["column-scaled"])),
    "is_pseudo_unitary": ("toqito.matrix_props", b_is_pseudo_unitary, ["exact", "noise"], ["scaled", "wrong-signature", "size-mismatch", "nonsquare"], ["pu-product", "pu-inverse", "phase"], ("exact", ["scaled"])),
    "is_pseudo_hermitian": ("toqito.matrix_props", b_is_pseudo_hermitian, ["exact", "noise", "hermitian-identity-signature"], ["imag-shift", "skew-part", "size-mismatch"], ["ph-add", "ph-similarity", "scale-real"], ("exact", ["imag-shift", "skew-part"])),
    "is_positive_definite": ("toqito.matrix_props", b_is_positive_definite, ["exact", "diag", "int-tridiag"], ["indefinite", "negative-definite", "one-negative-eigenvalue", "non-hermitian"], ["conjU-sym", "transpose", "conj", "scale-pos"], ("exact", ["one-negative-eigenvalue"])),
    "is_positive_semidefinite": ("toqito.matrix_props", b_is_positive_semidefinite, ["fullrank", "rankdef", "zero", "noise"], ["one-negative-eigenvalue", "negative-definite", "non-hermitian", "nonsquare"], ["conjU", "transpose", "conj", "scale-pos"], ("rankdef", ["one-negative-eigenvalue"])),
    "is_projection": ("toqito.matrix_props", b_is_projection, ["rank0", "rank1", "rankhalf", "full", "noise"], ["hermitian-not-idempotent", "negative", "nonsquare"], ["conjU", "transpose", "conj", "complement"], ("rankhalf", ["hermitian-not-idempotent"])),
    "is_idempotent": ("toqito.matrix_props", b_is_idempotent, ["orthogonal", "oblique", "zero", "identity", "noise"], ["scaled", "perturbed", "nonsquare"], ["similarity", "transpose", "dagger", "complement"], ("oblique", ["scaled"])),
    "is_identity": ("toqito.matrix_props", b_is_identity, ["float", "int", "complex", "noise"], ["offdiag", "scaled", "phase", "perm", "diag-entry", "nonsquare"], ["conjU", "transpose"], ("float", ["diag-entry"])),
    "is_diagonal": ("toqito.matrix_props", b_is_diagonal, ["exact", "int", "fortran-order", "strided-view"], ["tiny-offdiag", "nonsquare"], ["perm-conj", "transpose", "scale-complex", "conj"], ("exact", ["tiny-offdiag"])),
    "is_density": ("toqito.matrix_props", b_is_density, ["mixed", "pure", "maxmixed"], ["trace-1.1", "trace-0.9", "negative-eigenvalue", "non-hermitian", "nonsquare"], ["conjU", "transpose", "conj"], ("mixed", ["negative-eigenvalue", "trace-1.1"])),
    "is_permutation": ("toqito.matrix_props", b_is_permutation, ["random", "int"], ["neg-entries", "doubly-stochastic", "duplicate-row", "zero-row", "scaled", "nonsquare"], ["transpose", "perm-conj"], ("random", ["duplicate-row"])),
    "is_circulant": ("toqito.matrix_props", b_is_circulant, ["exact", "int", "noise"], ["entry", "left-circulant", "toeplitz", "nonsquare"], ["transpose", "cyclic-conj", "scale-complex", "shift-complex"], ("exact", ["entry"])),
    "is_positive": ("toqito.matrix_props", b_is_positive, ["random", "rectangular"], ["neg-entry", "zero-entry"], ["transpose", "scale-pos", "perm-conj"], ("random", ["neg-entry"])),
    "is_commuting": ("toqito.matrix_props", b_is_commuting, ["common-eigenbasis", "polynomial", "with-identity", "kron-factors"], ["generic", "perturbed", "pauli-xz"], ["swap-args", "simul-similarity", "scale-both"], ("common-eigenbasis", ["perturbed"])),
    "is_orthonormal": ("toqito.matrix_props", b_is_orthonormal, ["rows-of-unitary", "noise", "list-input"], ["orthogonal-not-normalised", "normalised-not-orthogonal", "list-input-not-orthogonal"], ["rows-unitary", "rows-perm-phase"], ("rows-of-unitary", ["orthogonal-not-normalised", "normalised-not-orthogonal"])),
    "is_linearly_independent": ("toqito.matrix_props", b_is_linearly_independent, ["independent", "column-vectors"], ["combination", "repeated", "too-many", "zero-vector"], ["vl:apply-invertible", "vl:mix-invertible", "vl:scale-each", "vl:permute"], ("independent", ["combination"])),
    "is_totally_positive": ("toqito.matrix_props", b_is_totally_positive, ["exact", "int", "rect-wide", "rect-tall"], ["neg-entry", "row-swap", "complex-entry", "rect-wide-bad", "rect-tall-bad"], ["transpose", "pos-diag-scalings", "reverse-both"], ("exact", ["row-swap"])),
    "is_pure": ("toqito.state_props", b_is_pure, ["pure", "basis-state", "list-all-pure"], ["mixed", "maxmixed", "list-one-mixed"], ["states-conjU", "states-permute"], ("pure", ["mixed"])),
    "is_mixed": ("toqito.state_props", b_is_mixed, ["mixed", "maxmixed"], ["pure", "basis-state"], ["states-conjU"], ("mixed", ["pure"])),
    "is_ensemble": ("toqito.state_props", b_is_ensemble, ["weighted-states", "single-state", "with-zero-operator"], ["total-0.9", "total-1.1", "negative-operator", "non-hermitian-operator"], ["states-conjU", "states-permute", "states-split"], ("weighted-states", ["total-0.9", "negative-operator"])),
    "is_mutually_orthogonal": ("toqito.state_props", b_is_mutually_orthogonal, ["orthogonal", "noise"], ["overlap", "repeated"], ["vl:apply-unitary", "vl:scale-each", "vl:permute"], ("orthogonal", ["overlap"])),
    "is_mutually_unbiased_basis": ("toqito.state_props", b_is_mutually_unbiased_basis, ["standard+fourier", "complete-prime", "three-of-complete", "rotated-pair"], ["biased-pair", "one-biased-of-three", "wrong-count", "blocks-not-orthonormal"], ["vl:apply-unitary", "vl:phase-each", "mub-within", "mub-order"], ("standard+fourier", ["biased-pair"])),
}
T.update({
    "swap-args": _t_swap_args, "simul-similarity": _t_simul_similarity, "scale-both": _t_scale_both, "pu-product": _t_pu_product, "pu-inverse": _t_pu_inverse,
    "ph-add": _t_ph_add, "ph-similarity": _t_ph_similarity, "stoch-transpose": _t_stoch_transpose, "stoch-perm": _t_stoch_perm, "rows-unitary": _t_rows_unitary,
    "rows-perm-phase": _t_rows_perm_phase, "states-conjU": _t_states_conjU, "states-permute": _t_states_permute, "states-split": _t_states_split,
    "mub-within": _t_mub_within, "mub-order": _t_mub_order, "upb-local": _t_upb_local, "upb-perm-phase": _t_upb_perm_phase,
})
for _k, _f in T_VL.items():
    T["vl:" + _k] = _f
# predicates with an extra discrete argument (handled by dedicated case generators)
PREDS_X = {
    "is_diagonally_dominant": ("toqito.matrix_props", b_is_diagonally_dominant, ["perm-conj", "conj", "scale-int", "row-scale-int"]),
    "is_stochastic": ("toqito.matrix_props", b_is_stochastic, ["stoch-transpose", "stoch-perm"]),
    "is_nonnegative": ("toqito.matrix_props", b_is_nonnegative, ["perm-conj", "transpose", "scale-pos"]),
    "is_square": ("toqito.matrix_props", b_is_square, []),
    "is_unextendible_product_basis": ("toqito.state_props", b_is_unextendible_product_basis, ["upb-local", "upb-perm-phase"]),
}
_ALL = {}
for _k, _v in PREDS.items():
    _ALL[_k] = (_v[0], _v[1])
for _k, _v in PREDS_X.items():
    _ALL[_k] = (_v[0], _v[1])


def _verdict(pred, args):
    import contextlib
    import importlib
    import io

    fn = getattr(importlib.import_module(_ALL[pred][0]), pred)
    with contextlib.redirect_stdout(io.StringIO()):
        res = fn(*args)
    if pred == "is_unextendible_product_basis":
        return bool(res[0]), res
    return bool(res), res


def _describe(args):
    out = []
    for a in args:
        if isinstance(a, np.ndarray):
            out.append("array%s%s" % (a.shape, np.array2string(a, precision=4, max_line_width=200).replace("\n", "") if a.size <= 16 else ""))
        elif isinstance(a, list) and a and isinstance(a[0], (np.ndarray, list)):
            out.append("list of %d arrays of shape %s" % (len(a), np.asarray(a[0]).shape))
        else:
            out.append(repr(a))
    return ", ".join(out)[:700]


def _build(pred, p, transform=None):
    rng = _rng(p)
    args, exp = _ALL[pred][1](p, rng)
    if transform:
        args = T[transform](args, _rng(p, 77), p)
    return args, exp


def _upb_witness_check(args, res):
    vecs, dims = args
    ok, wit = res
    if ok:
        if wit is not None:
            raise Violation("is_unextendible_product_basis returned (True, witness): a UPB has no witness")
        return
    if wit is None:
        raise Violation("is_unextendible_product_basis returned (False, None): the documented witness is missing")
    w = np.asarray(wit).reshape(-1)
    if w.shape[0] != int(np.prod(dims)) or np.linalg.norm(w) < 1e-6:
        raise Violation("witness has shape %s / norm %.3g" % (np.asarray(wit).shape, float(np.linalg.norm(w))))
    w = w / np.linalg.norm(w)
    ov = max(abs(np.vdot(np.asarray(x).reshape(-1), w)) for x in vecs)
    if ov > TOL:
        raise Violation("witness is not orthogonal to the input vectors (max |<v,w>| = %.3g)" % ov)
    # product: every bipartition i | rest has Schmidt rank one
    t = w.reshape(dims)
    for i in range(len(dims)):
        s = np.linalg.svd(np.moveaxis(t, i, 0).reshape(dims[i], -1), compute_uv=False)
        if len(s) > 1 and s[1] > 1e-7:
            raise Violation("witness is not a product vector (second Schmidt coefficient %.3g across party %d)" % (s[1], i))


def _make_clause(pred, kind):
    def clause(p):
        args, exp = _build(pred, p, p.get("t"))
        if kind == "true" and not exp or kind == "false" and exp:
            raise Undecided("case generator produced a %s case for the %s clause" % (exp, kind))
        got, res = _verdict(pred, args)
        if got != exp:
            what = "satisfies the definition by construction" if exp else "violates the definition by a margin >= 1e-2"
            tr = (" after the property-preserving transformation '%s'" % p["t"]) if p.get("t") else ""
            raise Violation("%s(%s) returned %s on an input that %s%s [variant %s, n=%s, %s]" % (pred, _describe(args), got, what, tr, p.get("v"), p.get("n"), "complex" if p.get("cx") else "real"))

    clause.function = pred
    clause.__doc__ = "%s returns %s" % (pred, {"true": "True on inputs satisfying its definition", "false": "False on inputs violating its definition by a margin", "invariant": "the same verdict after a property-preserving transformation"}[kind])
    return clause


def upb_witness(p):
    """the second return value is None for a UPB and otherwise a product vector orthogonal to every input vector (as documented)"""
    args, exp = _build("is_unextendible_product_basis", p, p.get("t"))
    got, res = _verdict("is_unextendible_product_basis", args)
    if got != exp:
        raise Undecided("verdict clause fails on this input; the witness is not judged")
    _upb_witness_check(args, res)


upb_witness.function = "is_unextendible_product_basis"

def stateset_mixed_dtype(p):
    """state-set predicates and the Gram matrix on a list whose vectors have different numpy dtypes (int64 first, then float64, then complex128)"""
    import toqito.matrix_ops as mo
    import toqito.matrix_props as mp
    import toqito.state_props as spr

    d = int(p.get("d", 3))
    e = np.eye(d)
    s2 = np.sqrt(2)
    col = bool(p.get("column"))

    def shape(v):
        return v.reshape(-1, 1) if col else v

    if d > 2:
        ortho = [shape(np.rint(e[0]).astype(np.int64)), shape((e[1] + 1j * e[2]) / s2), shape((e[1] - 1j * e[2]) / s2)]
    else:
        ortho = [shape(np.rint(e[0]).astype(np.int64)), shape(e[1].astype(float))]
    over = [shape(np.rint(e[0]).astype(np.int64)), shape(((e[0] + e[1]) / s2).astype(float)), shape((e[0] + 1j * e[1]) / s2)]
    flat = lambda vs: [np.asarray(v).reshape(-1).astype(complex) for v in vs]  # noqa: E731
    for name, vs, orth in (("orthonormal", ortho, True), ("overlapping", over, False)):
        G = np.array([[np.vdot(a, b) for b in flat(vs)] for a in flat(vs)])
        got = np.asarray(mo.vectors_to_gram_matrix([v.copy() for v in vs]))
        if got.shape != G.shape or np.max(np.abs(got - G)) > 1e-9:
            raise Violation("vectors_to_gram_matrix on a %s list of dtypes %s: max deviation %.3g from <v_i, v_j>" % (name, [str(v.dtype) for v in vs], float(np.max(np.abs(got - G))) if got.shape == G.shape else -1))
        r = bool(spr.is_mutually_orthogonal([v.copy() for v in vs]))
        if r != orth:
            raise Violation("is_mutually_orthogonal = %s on the %s list of dtypes %s" % (r, name, [str(v.dtype) for v in vs]))
        li = bool(mp.is_linearly_independent([v.copy() for v in vs]))
        exp_li = np.linalg.matrix_rank(np.array(flat(vs))) == len(vs)
        if li != bool(exp_li):
            raise Violation("is_linearly_independent = %s on the %s list of dtypes %s (rank %d of %d)" % (li, name, [str(v.dtype) for v in vs], np.linalg.matrix_rank(np.array(flat(vs))), len(vs)))


stateset_mixed_dtype.function = "vectors_to_gram_matrix/is_mutually_orthogonal/is_linearly_independent"

CLAUSES = {"is_unextendible_product_basis.witness": upb_witness, "stateset.mixed_dtype": stateset_mixed_dtype}
for _pred in _ALL:
    for _kind in ("true", "false", "invariant"):
        CLAUSES["%s.%s" % (_pred, _kind)] = _make_clause(_pred, _kind)


# ---------------------------------------------------------------------------------------------
# helper identities
# ---------------------------------------------------------------------------------------------
from props.index_clauses import CLAUSES as _IDX  # noqa: E402

CLAUSES["vec.index"] = _IDX["vec.index"]
CLAUSES["unvec.index"] = _IDX["unvec.index"]


def _close(got, exp, what, tol=TOL):
    got = np.asarray(got)
    exp = np.asarray(exp)
    if got.shape != exp.shape:
        raise Violation("%s: shape %s, required %s" % (what, got.shape, exp.shape))
    scale = max(1.0, float(np.max(np.abs(exp))) if exp.size else 1.0)
    dev = float(np.max(np.abs(got - exp))) if exp.size else 0.0
    if not dev <= tol * scale:
        raise Violation("%s: max abs deviation %.3g (scale %.3g)" % (what, dev, scale))


def _kron_ref(A, B):
    """Kronecker product from its index definition K[(i,k),(j,l)] = A[i,j] B[k,l] (vectors: K[(i,k)] = a[i] b[k])"""
    A = np.asarray(A)
    B = np.asarray(B)
    if A.ndim == 1 and B.ndim == 1:
        return np.einsum("i,k->ik", A, B).reshape(-1)
    A2 = A.reshape(A.shape[0], -1) if A.ndim == 2 else A.reshape(1, -1)
    B2 = B.reshape(B.shape[0], -1) if B.ndim == 2 else B.reshape(1, -1)
    return np.einsum("ij,kl->ikjl", A2, B2).reshape(A2.shape[0] * B2.shape[0], A2.shape[1] * B2.shape[1])


def vec_kron_identity(p):
    """vec(A X B) == (B^T (x) A) vec(X); vec is linear; unvec(vec(X)) == X"""
    from toqito.matrix_ops import unvec, vec

    a, b, c, d = p["shape"]
    cx = p["cx"]
    rng = _rng(p, a * 1000 + b * 100 + c * 10 + d)
    A, X, B = _gin(rng, (a, b), cx), _gin(rng, (b, c), cx), _gin(rng, (c, d), cx)
    lhs = vec(A @ X @ B)
    rhs = _kron_ref(B.T, A) @ vec(X)
    _close(lhs, rhs, "vec(AXB) vs (B^T (x) A) vec(X), shapes %s" % (p["shape"],), 1e-9 * max(1, b * c))
    Y = _gin(rng, (b, c), cx)
    s, t = (0.7 - 0.2j, -1.3 + 0.5j) if cx else (0.7, -1.3)
    _close(vec(s * X + t * Y), s * vec(X) + t * vec(Y), "vec linear", 1e-12)
    _close(unvec(vec(X), [b, c]), X, "unvec(vec(X))", 0)
    if b == c:
        _close(unvec(vec(X)), X, "unvec(vec(X)) with default square shape", 0)
    # inner product: <vec(X), vec(Y)> == tr(X^dagger Y)
    _close(_dag(vec(X)) @ vec(Y), np.array([[np.trace(_dag(X) @ Y)]]), "<vec X, vec Y> == tr(X^dagger Y)", 1e-9)


vec_kron_identity.function = "vec"


def _factors(p, rng):
    out = []
    for shp in p["shapes"]:
        out.append(_gin(rng, tuple(shp), p["cx"]))
    return out


def tensor_assoc(p):
    """tensor(A,B,C) == tensor(tensor(A,B),C) == tensor(A,tensor(B,C)) == tensor([A,B,C]) == index-defined Kronecker product"""
    from toqito.matrix_ops import tensor

    rng = _rng(p, 5)
    F = _factors(p, rng)
    ref = F[0]
    for x in F[1:]:
        ref = _kron_ref(ref, x)
    if len(F) == 1:
        _close(tensor([F[0]]), F[0], "tensor([A])", 0)
        return
    _close(tensor(*F), ref, "tensor(A, B, ...) variadic", 1e-9)
    _close(tensor(list(F)), ref, "tensor([A, B, ...]) list form", 1e-9)
    if len(F) == 3:
        A, B, C = F
        _close(tensor(tensor(A, B), C), ref, "tensor(tensor(A,B),C)", 1e-9)
        _close(tensor(A, tensor(B, C)), ref, "tensor(A,tensor(B,C))", 1e-9)
    if len(F) >= 2 and all(np.asarray(x).shape == np.asarray(F[0]).shape for x in F):
        arr = np.array(F)
        _close(tensor(arr), ref, "tensor(np.array([A, B, ...])) array-of-factors form", 1e-9)


tensor_assoc.function = "tensor"


def tensor_power(p):
    """tensor(A, n) == A (x) A (x) ... (x) A (n factors), n = 0 gives the 1x1 identity; == tensor([A]*n) == tensor(A, A, ..., A)"""
    from toqito.matrix_ops import tensor

    rng = _rng(p, 6)
    A = _gin(rng, tuple(p["shape"]), p["cx"])
    if p.get("int"):
        A = rng.integers(-3, 4, tuple(p["shape"]))
    n = p["power"]
    got = tensor(A, n)
    if n == 0:
        _close(got, np.eye(1), "tensor(A, 0)", 0)
        return
    ref = A
    for _ in range(n - 1):
        ref = _kron_ref(ref, A)
    _close(got, ref, "tensor(A, %d) vs repeated product" % n, 1e-9)
    if n >= 2:
        _close(tensor([A] * n), ref, "tensor([A]*%d)" % n, 1e-9)
        _close(tensor(*([A] * n)), ref, "tensor(A, ..., A)", 1e-9)
        _close(tensor(tensor(A, n - 1), A), ref, "tensor(tensor(A,n-1),A)", 1e-9)
        _close(tensor(A, tensor(A, n - 1)), ref, "tensor(A,tensor(A,n-1))", 1e-9)


tensor_power.function = "tensor"


def _gram_vectors(p, rng):
    n, r, cx, kind = p["n"], p["r"], p["cx"], p["kind"]
    if kind == "generic":
        V = _gin(rng, (r, n), cx)  # n vectors in dimension r: Gram matrix n x n of rank min(r, n)
    elif kind == "isometric":  # equal non-zero eigenvalues: G is a multiple of a rank-r projector
        V = 1.5 * _haar(rng, n, cx)[:r, :]
    elif kind == "trine":
        V = np.array([[1, 0], [-0.5, np.sqrt(3) / 2], [-0.5, -np.sqrt(3) / 2]]).T
    else:
        raise KeyError(kind)
    G = _dag(V) @ V
    return V, _herm(G)


def _gram_ref(vs):
    k = len(vs)
    G = np.zeros((k, k), dtype=complex)
    for i in range(k):
        for j in range(k):
            G[i, j] = np.vdot(np.asarray(vs[i]).reshape(-1), np.asarray(vs[j]).reshape(-1))
    return G


def gram_roundtrip(p):
    """vectors_to_gram_matrix(vectors_from_gram_matrix(G)) == G for a Gram matrix G (G[i,j] = <v_i, v_j>)"""
    import contextlib
    import io

    from toqito.matrix_ops import vectors_from_gram_matrix, vectors_to_gram_matrix

    rng = _rng(p, 8)
    V, G = _gram_vectors(p, rng)
    with contextlib.redirect_stdout(io.StringIO()):
        vs = vectors_from_gram_matrix(G)
    if len(vs) != G.shape[0]:
        raise Violation("vectors_from_gram_matrix returned %d vectors for a %dx%d Gram matrix" % (len(vs), G.shape[0], G.shape[0]))
    G_def = _gram_ref(vs)  # Gram matrix of the returned vectors, from the definition (np.vdot)
    dev = float(np.max(np.abs(G_def - G)))
    devT = float(np.max(np.abs(G_def - G.T)))
    if dev > TOL * max(1, np.max(np.abs(G))):
        raise Violation("Gram matrix of vectors_from_gram_matrix(G) differs from G by %.3g (from G^T by %.3g); n=%d rank=%d %s %s" % (dev, devT, p["n"], min(p["r"], p["n"]), "complex" if p["cx"] else "real", p["kind"]))
    G2 = vectors_to_gram_matrix(vs)
    _close(G2, G, "vectors_to_gram_matrix(vectors_from_gram_matrix(G))")


gram_roundtrip.function = "vectors_from_gram_matrix"


def gram_definition(p):
    """vectors_to_gram_matrix(vs)[i,j] == <v_i, v_j> (conjugate-linear in the first argument), Hermitian PSD, rank = dim span"""
    from toqito.matrix_ops import vectors_to_gram_matrix

    rng = _rng(p, 9)
    V, _ = _gram_vectors(p, rng)
    form = p.get("form", "1d")
    vs = [V[:, i].copy() if form == "1d" else V[:, i].reshape(-1, 1).copy() for i in range(V.shape[1])]
    G = vectors_to_gram_matrix(vs)
    _close(G, _gram_ref(vs), "vectors_to_gram_matrix vs <v_i, v_j>", 1e-9)
    _close(G, _dag(G), "Gram matrix Hermitian", 1e-9)
    w = np.linalg.eigvalsh(_herm(G))
    if w[0] < -1e-9 * max(1, w[-1]):
        raise Violation("Gram matrix has negative eigenvalue %.3g" % w[0])
    U = _haar(rng, V.shape[0], p["cx"])
    _close(vectors_to_gram_matrix([U @ x for x in vs]), G, "Gram matrix invariant under a common unitary", 1e-9)


gram_definition.function = "vectors_to_gram_matrix"


def _commutant_input(p, rng):
    n, cx, kind = p["n"], p["cx"], p["kind"]
    if kind == "normal-multiplicities":
        mult = p["mult"]
        d = np.concatenate([[float(i + 1) * (1.0 if i % 2 == 0 else -1.0)] * m for i, m in enumerate(mult)])
        if len(mult) == 1:  # scalar matrix: keep it exactly scalar (rounding noise would be the only structure left)
            return [np.diag(d).astype(complex if cx else float)], n * n
        U = _haar(rng, n, cx)
        return [U @ np.diag(d) @ _dag(U)], sum(m * m for m in mult)
    if kind == "diagonalisable-multiplicities":
        mult = p["mult"]
        d = np.concatenate([[float(i + 1)] * m for i, m in enumerate(mult)])
        if len(mult) == 1:
            return [np.diag(d).astype(complex if cx else float)], n * n
        S = _mixer(rng, n, cx)
        return [S @ np.diag(d) @ np.linalg.inv(S)], sum(m * m for m in mult)
    if kind == "jordan-block":
        J = 0.7 * np.eye(n) + np.eye(n, k=1)
        return [J], n
    if kind == "identity":
        return [np.eye(n)], n * n
    if kind == "algebra-tensor-identity":
        k, m = p["k"], p["m"]  # generators B_j (x) I_m generate M_k (x) I_m, commutant I_k (x) M_m
        if k == 1:
            return [(1.5 - (0.5j if cx else 0.0)) * np.eye(n)], n * n
        U = _haar(rng, n, cx)
        gens = [U @ np.kron(_gin(rng, (k, k), cx), np.eye(m)) @ _dag(U) for _ in range(2)]
        return gens, m * m
    if kind == "block-algebra":
        blocks = p["blocks"]  # generators = generic block-diagonal matrices: commutant = one scalar per block
        U = _haar(rng, n, cx)
        gens = []
        for _ in range(2):
            M = np.zeros((n, n), dtype=complex if cx else float)
            o = 0
            for b in blocks:
                M[o : o + b, o : o + b] = _gin(rng, (b, b), cx)
                o += b
            gens.append(U @ M @ _dag(U))
        return gens, len(blocks)
    if kind == "pauli-xz":
        return [np.array([[0.0, 1], [1, 0]]), np.array([[1.0, 0], [0, -1]])], 1
    raise KeyError(kind)


def _commutant_call(p):
    from toqito.matrix_props import commutant

    rng = _rng(p, 10)
    gens, dim = _commutant_input(p, rng)
    arg = gens[0] if (len(gens) == 1 and p.get("form", "list") == "array") else list(gens)
    basis = commutant(arg)
    return gens, dim, basis


def commutant_commutes(p):
    """every returned matrix commutes with every generator; the returned matrices are orthonormal in the Hilbert-Schmidt inner product"""
    gens, dim, basis = _commutant_call(p)
    n = gens[0].shape[0]
    for k, X in enumerate(basis):
        X = np.asarray(X)
        if X.shape != (n, n):
            raise Violation("commutant element %d has shape %s" % (k, X.shape))
        for j, A in enumerate(gens):
            dev = float(np.max(np.abs(A @ X - X @ A)))
            if dev > TOL * max(1.0, float(np.max(np.abs(A)))):
                raise Violation("commutant element %d does not commute with generator %d: max |AX - XA| = %.3g (%s, n=%d)" % (k, j, dev, p["kind"], n))
    if basis:
        B = np.array([np.asarray(X).reshape(-1) for X in basis])
        _close(B.conj() @ B.T, np.eye(len(basis)), "Hilbert-Schmidt Gram matrix of the commutant basis")


commutant_commutes.function = "commutant"


def commutant_dimension(p):
    """the number of returned matrices equals the dimension of the commutant predicted from the generators' structure"""
    gens, dim, basis = _commutant_call(p)
    if len(basis) != dim:
        raise Violation("commutant returned %d matrices, the commutant of these generators has dimension %d (%s, n=%d, %s)" % (len(basis), dim, p["kind"], gens[0].shape[0], {k: p[k] for k in ("mult", "k", "m", "blocks") if k in p}))


commutant_dimension.function = "commutant"


def _partial_sums_margin(a, b):
    a = np.sort(np.asarray(a, dtype=float))[::-1]
    b = np.sort(np.asarray(b, dtype=float))[::-1]
    m = max(len(a), len(b))
    a = np.pad(a, (0, m - len(a)))
    b = np.pad(b, (0, m - len(b)))
    return float(np.min(np.cumsum(a) - np.cumsum(b)))


def _majorizes_input(p, rng):
    n, kind = p["n"], p["kind"]
    if kind == "doubly-stochastic-image":  # b = D a  =>  a majorizes b
        a = rng.random(n) + 0.05
        b = _doubly_stochastic(rng, n) @ a
        return a, b, None
    if kind == "reflexive-permuted":
        a = rng.random(n)
        return a, a[rng.permutation(n)], True
    if kind == "random-pair":
        for _ in range(200):
            a, b = rng.random(n), rng.random(p.get("m", n))
            a, b = a / a.sum(), b / b.sum()
            if abs(_partial_sums_margin(a, b)) > 1e-2 or (n == 1 and p.get("m", n) == 1):
                break
        return a, b, None
    if kind == "reversed":  # b = D a, ask whether b majorizes a (false when the margin is there)
        a = rng.random(n) + 0.05
        b = _doubly_stochastic(rng, n) @ a
        return b, a, None
    if kind == "int-lists":
        a = sorted(int(x) for x in rng.integers(0, 6, n))
        b = [int(x) for x in rng.integers(0, 6, n)]
        return list(a), list(b), None
    if kind == "matrices":  # singular values
        U1, V1, U2, V2 = (_haar(rng, n, p["cx"]) for _ in range(4))
        for _ in range(200):
            sa, sb = rng.random(n) + 0.05, rng.random(n) + 0.05
            if abs(_partial_sums_margin(sa, sb)) > 1e-2:
                break
        return U1 @ np.diag(sa) @ V1, U2 @ np.diag(sb) @ V2, None
    raise KeyError(kind)


def _majorizes_expected(a, b):
    sa = np.asarray(a, dtype=float) if np.asarray(a).ndim == 1 else np.linalg.svd(np.asarray(a), compute_uv=False)
    sb = np.asarray(b, dtype=float) if np.asarray(b).ndim == 1 else np.linalg.svd(np.asarray(b), compute_uv=False)
    return _partial_sums_margin(sa, sb)


def _majorizes_clause(direction):
    def clause(p):
        from toqito.matrix_props import majorizes

        rng = _rng(p, 11)
        a, b, forced = _majorizes_input(p, rng)
        margin = _majorizes_expected(a, b)
        if forced is not None:
            exp = forced
        elif margin >= 1e-3:
            exp = True
        elif margin <= -1e-3:
            exp = False
        else:
            raise Undecided("partial sums within 1e-3 of each other: boundary input, not judged")
        if exp != (direction == "true"):
            return {"skipped": "belongs to the other clause"}
        got = bool(majorizes(a, b))
        if got != exp:
            raise Violation("majorizes returned %s; min_k (sum_k a_sorted - sum_k b_sorted) = %.4g (%s, n=%d)" % (got, margin, p["kind"], p["n"]))

    clause.function = "majorizes"
    clause.__doc__ = "majorizes(a, b) is %s when all partial sums of the sorted (singular) values of a dominate / some partial sum of b exceeds" % direction
    return clause


def _spark_input(p, rng):
    m, n, kind, cx = p["m"], p["ncols"], p["kind"], p["cx"]
    A = _gin(rng, (m, n), cx)
    if kind == "generic":
        pass
    elif kind == "zero-column":
        A[:, int(rng.integers(n))] = 0
    elif kind == "parallel-columns":
        A[:, n - 1] = (1.7 - (0.4j if cx else 0)) * A[:, 0]
    elif kind == "dependent-k":
        k = p["k"]  # columns 0..k-1 span only k-1 dimensions, everything else generic
        A[:, k - 1] = A[:, : k - 1] @ (_gin(rng, (k - 1,), cx) + 0.5)
    elif kind == "identity-plus-ones":
        A = np.hstack([np.eye(m), np.ones((m, 1))])
    else:
        raise KeyError(kind)
    return A


def _spark_ref(A):
    m, n = A.shape
    scale = max(1.0, float(np.max(np.abs(A))))
    for k in range(1, min(m, n) + 1):
        for cols in itertools.combinations(range(n), k):
            s = np.linalg.svd(A[:, cols], compute_uv=False)
            smin = s[-1] if len(s) >= k else 0.0
            if smin < 1e-10 * scale:
                return k
            if smin < 1e-5 * scale:
                raise Undecided("nearly dependent columns (sigma_min = %.3g): boundary input" % smin)
    return min(m, n) + 1


def spark_bruteforce(p):
    """spark(A) == smallest number of linearly dependent columns (brute force over column subsets with an SVD rank test); documented value min(m,n)+1 when none"""
    from toqito.matrix_props import spark

    A = _spark_input(p, _rng(p, 12))
    exp = _spark_ref(A)
    got = spark(A)
    if int(got) != exp:
        raise Violation("spark of a %dx%d matrix (%s) = %s, brute force gives %d" % (A.shape[0], A.shape[1], p["kind"], got, exp))
    if p["kind"] != "zero-column" and A.shape[0] >= 1:
        S = _mixer(_rng(p, 13), A.shape[0], p["cx"])
        got2 = spark(S @ A)
        if int(got2) != exp:
            raise Violation("spark changed from %d to %s under an invertible row transformation" % (exp, got2))


spark_bruteforce.function = "spark"


def kp_norm_svd(p):
    """kp_norm(M, k, p) == (sum of the p-th powers of the k largest singular values)^(1/p)"""
    from toqito.matrix_props import kp_norm

    rng = _rng(p, 14)
    M = _gin(rng, (p["m"], p["ncols"]), p["cx"])
    if p.get("rankdef"):
        r = max(1, min(p["m"], p["ncols"]) // 2)
        M = _gin(rng, (p["m"], r), p["cx"]) @ _gin(rng, (r, p["ncols"]), p["cx"])
    s = np.sort(np.linalg.svd(M, compute_uv=False))[::-1]
    for k in range(1, min(M.shape) + 2):
        for q in p["ps"]:
            qq = np.inf if q == "inf" else q
            got = kp_norm(M, k, qq)
            top = s[:k]
            exp = float(np.max(top)) if q == "inf" else float(np.sum(top**q) ** (1.0 / q))
            if abs(got - exp) > TOL * max(1.0, exp):
                raise Violation("kp_norm(M %s, k=%d, p=%s) = %.10g, singular-value definition gives %.10g" % (M.shape, k, q, got, exp))
    U, V = _haar(rng, M.shape[0], p["cx"]), _haar(rng, M.shape[1], p["cx"])
    k = max(1, min(M.shape) - 1)
    a, b = kp_norm(U @ M @ V, k, 3), kp_norm(M, k, 3)
    if abs(a - b) > TOL * max(1.0, b):
        raise Violation("kp_norm not unitarily invariant: %.10g vs %.10g" % (a, b))


kp_norm_svd.function = "kp_norm"


def trace_norm_svd(p):
    """trace_norm(M) == sum of singular values (== sum |eigenvalues| for Hermitian M, == 1 for density matrices); unitarily invariant"""
    from toqito.matrix_props import trace_norm

    rng = _rng(p, 15)
    kind = p["kind"]
    m, n, cx = p["m"], p["ncols"], p["cx"]
    if kind == "generic":
        M = _gin(rng, (m, n), cx)
    elif kind == "hermitian":
        M = _herm(_gin(rng, (m, m), cx))
    elif kind == "density":
        M = _density(rng, m, cx)
    elif kind == "difference-of-states":
        M = _density(rng, m, cx) - _density(rng, m, cx, 1)
    else:
        raise KeyError(kind)
    got = trace_norm(M)
    exp = float(np.sum(np.linalg.svd(M, compute_uv=False)))
    if abs(got - exp) > TOL * max(1.0, exp):
        raise Violation("trace_norm(%s %s) = %.10g, sum of singular values = %.10g" % (kind, M.shape, got, exp))
    if kind != "generic":
        e2 = float(np.sum(np.abs(np.linalg.eigvalsh(_herm(M)))))
        if abs(got - e2) > TOL * max(1.0, e2):
            raise Violation("trace_norm(Hermitian) = %.10g, sum |eigenvalues| = %.10g" % (got, e2))
    if kind == "density" and abs(got - 1) > TOL:
        raise Violation("trace_norm(density matrix) = %.10g" % got)
    U, V = _haar(rng, M.shape[0], cx), _haar(rng, M.shape[1], cx)
    g2 = trace_norm(U @ M @ V)
    if abs(g2 - got) > TOL * max(1.0, exp):
        raise Violation("trace_norm not unitarily invariant: %.10g vs %.10g" % (g2, got))
    if abs(trace_norm(-2.5 * M) - 2.5 * got) > TOL * max(1.0, exp):
        raise Violation("trace_norm not absolutely homogeneous")


trace_norm_svd.function = "trace_norm"


def errors_documented(p):
    """documented exceptions are raised on the documented inadmissible inputs"""
    import contextlib
    import io

    kind = p["kind"]
    import toqito.matrix_ops as mo
    import toqito.matrix_props as mp
    import toqito.state_props as sp

    e0 = np.array([1.0, 0.0])
    table = {
        "is_square/1d": (lambda: mp.is_square(np.arange(3.0)), ValueError),
        "is_square/3d": (lambda: mp.is_square(np.zeros((2, 2, 2))), ValueError),
        "is_pseudo_unitary/negative-p": (lambda: mp.is_pseudo_unitary(np.eye(2), -1, 3), ValueError),
        "is_pseudo_unitary/negative-q": (lambda: mp.is_pseudo_unitary(np.eye(2), 3, -1), ValueError),
        "is_pseudo_hermitian/non-hermitian-signature": (lambda: mp.is_pseudo_hermitian(np.eye(2), np.array([[1.0, 1.0], [0.0, -1.0]])), ValueError),
        "is_pseudo_hermitian/singular-signature": (lambda: mp.is_pseudo_hermitian(np.eye(2), np.array([[1.0, 0.0], [0.0, 0.0]])), ValueError),
        "is_stochastic/bad-type": (lambda: mp.is_stochastic(np.eye(2), "both"), TypeError),
        "is_nonnegative/bad-type": (lambda: mp.is_nonnegative(np.eye(2), "triply"), TypeError),
        "is_totally_positive/empty": (lambda: mp.is_totally_positive(np.zeros((0, 0))), ValueError),
        "spark/1d": (lambda: mp.spark(np.arange(3.0)), ValueError),
        "spark/list": (lambda: mp.spark([[1, 0], [0, 1]]), ValueError),
        "is_mutually_orthogonal/one-vector": (lambda: sp.is_mutually_orthogonal([e0]), ValueError),
        "is_mutually_orthogonal/empty": (lambda: sp.is_mutually_orthogonal([]), ValueError),
        "is_unextendible_product_basis/dims-mismatch": (lambda: sp.is_unextendible_product_basis(_upb("tiles")[0], [2, 3]), ValueError),
        "is_unextendible_product_basis/non-product": (lambda: sp.is_unextendible_product_basis([np.array([1.0, 0, 0, 1]) / np.sqrt(2), np.array([0.0, 1, 0, 0])], [2, 2]), ValueError),
        "vectors_to_gram_matrix/different-lengths": (lambda: mo.vectors_to_gram_matrix([np.ones(2), np.ones(3)]), ValueError),
        "vectors_from_gram_matrix/non-square": (lambda: mo.vectors_from_gram_matrix(np.ones((2, 3))), np.linalg.LinAlgError),
    }
    call, exc = table[kind]
    try:
        with contextlib.redirect_stdout(io.StringIO()):
            r = call()
    except exc:
        return
    except Exception as e:  # noqa: BLE001
        raise Violation("%s: documented %s, raised %s: %s" % (kind, exc.__name__, type(e).__name__, str(e)[:200]))
    raise Violation("%s: documented %s, but the call returned %r" % (kind, exc.__name__, r))


errors_documented.function = "documented exceptions"

CLAUSES.update({
    "vec.kron_identity": vec_kron_identity,
    "tensor.assoc": tensor_assoc,
    "tensor.power": tensor_power,
    "gram.roundtrip": gram_roundtrip,
    "gram.definition": gram_definition,
    "commutant.commutes": commutant_commutes,
    "commutant.dimension": commutant_dimension,
    "majorizes.true": _majorizes_clause("true"),
    "majorizes.false": _majorizes_clause("false"),
    "spark.bruteforce": spark_bruteforce,
    "kp_norm.svd": kp_norm_svd,
    "trace_norm.svd": trace_norm_svd,
    "errors.documented": errors_documented,
})


def _majorizes_direction(p):
    a, b, forced = _majorizes_input(p, _rng(p, 11))
    if forced is not None:
        return "true" if forced else "false"
    m = _majorizes_expected(a, b)
    return "true" if m >= 1e-3 else "false" if m <= -1e-3 else None


# ---------------------------------------------------------------------------------------------
# case generation
# ---------------------------------------------------------------------------------------------
_EXTRA = {
    # predicate -> function(n) -> list of extra-parameter dicts (the small discrete part of the quantifier)
    "is_pseudo_unitary": lambda n: [dict(p=k) for k in range(0, n + 1)],
    "is_orthonormal": lambda n: [dict(k=k) for k in sorted({2, n}) if 2 <= k <= n],
    "is_linearly_independent": lambda n: [dict(k=k) for k in sorted({1, max(1, n - 1), n, n + 1})],
    "is_mutually_orthogonal": lambda n: [dict(k=k, form=f) for k in sorted({2, n}) if 2 <= k <= n for f in ("1d", "column", "list")],
    "is_totally_positive": lambda n: [dict(family="pascal"), dict(family="vandermonde")],
    "is_mutually_unbiased_basis": lambda n: [dict(form="1d"), dict(form="column")],
}


def cases(tier, seed):
    thorough = tier == "thorough"
    out = []
    seen = set()

    def add(clause, params, ic, nontrivial=True):
        key = (clause, repr(sorted(params.items(), key=lambda kv: kv[0])))
        if key in seen:
            return
        seen.add(key)
        out.append(dict(clause=clause, params=params, input_class=ic, nontrivial=bool(nontrivial)))

    def fld(cx):
        return "complex" if cx else "real"

    def try_add(pred, kind, params, ic):
        try:
            args, exp = _build(pred, params, params.get("t"))
        except _NA:
            return False
        if kind == "true" and not exp or kind == "false" and exp:
            kind = "true" if exp else "false"
        add("%s.%s" % (pred, kind), params, ic, params.get("n", 2) >= 2)
        return True

    seeds = [0] + [1000 + seed + i for i in range(10 if thorough else 1)]
    sizes = range(1, 7)
    for pred, (mod, bld, tv, fv, trs, bases) in PREDS.items():
        tb, fb = bases
        tb = [tb] if isinstance(tb, str) else tb
        for n in sizes:
            for cx in (False, True):
                extras = _EXTRA.get(pred, lambda n: [dict()])(n)
                for ex in extras:
                    for s in seeds:
                        for v in tv:
                            try_add(pred, "true", dict(v=v, n=n, cx=cx, seed=s, **ex), "%s/%s/%s" % (pred, v, fld(cx)))
                        for v in fv:
                            try_add(pred, "false", dict(v=v, n=n, cx=cx, seed=s, **ex), "%s/%s/%s" % (pred, v, fld(cx)))
                    for t in trs:
                        for v in list(tb) + list(fb):
                            pr = dict(v=v, n=n, cx=cx, seed=seeds[-1], t=t, **ex)
                            try:
                                _build(pred, pr, t)
                            except _NA:
                                continue
                            add("%s.invariant" % pred, pr, "%s/%s+%s/%s" % (pred, v, t, fld(cx)), n >= 2)
    # is_pure / is_ensemble list bases for the order / split transformations
    for n in sizes:
        for cx in (False, True):
            for v in ("list-all-pure", "list-one-mixed"):
                pr = dict(v=v, n=n, cx=cx, seed=0, t="states-permute")
                try:
                    _build("is_pure", pr, "states-permute")
                    add("is_pure.invariant", pr, "is_pure/%s+states-permute/%s" % (v, fld(cx)), n >= 2)
                except _NA:
                    pass
    # is_diagonal: every off-diagonal position
    for n in range(2, 7):
        for cx in (False, True):
            for i in range(n):
                for j in range(n):
                    if i != j:
                        add("is_diagonal.false", dict(v="offdiag", n=n, cx=cx, i=i, j=j, seed=0), "is_diagonal/offdiag/%s" % fld(cx))
    # is_permutation: every permutation matrix of size <= 4 (5: thorough), sampled above that
    for n in range(1, 6 if thorough else 5):
        import math

        for k in range(math.factorial(n)):
            add("is_permutation.true", dict(v="indexed", n=n, cx=False, k=k, seed=0), "is_permutation/indexed/real", n >= 2)
    # is_square: all shapes
    for r in range(1, 7):
        for c in range(1, 7):
            add("is_square.%s" % ("true" if r == c else "false"), dict(r=r, c=c, cx=bool((r + c) % 2), seed=0), "is_square/%s" % ("square" if r == c else "rectangular"), r * c > 1)
    # is_diagonally_dominant
    for n in sizes:
        for cx in (False, True):
            for strict in (True, False):
                for s in seeds:
                    for v in ("margin", "equality-int", "deficient-row", "nonsquare"):
                        pr = dict(v=v, n=n, cx=cx, strict=strict, seed=s)
                        try:
                            _, exp = _build("is_diagonally_dominant", pr)
                        except _NA:
                            continue
                        add("is_diagonally_dominant.%s" % ("true" if exp else "false"), pr, "is_diagonally_dominant/%s/%s/%s" % (v, "strict" if strict else "nonstrict", fld(cx)), n >= 2)
                for t in PREDS_X["is_diagonally_dominant"][2]:
                    for v in ("margin", "equality-int", "deficient-row"):
                        pr = dict(v=v, n=n, cx=cx, strict=strict, seed=seeds[-1], t=t)
                        try:
                            _build("is_diagonally_dominant", pr, t)
                        except _NA:
                            continue
                        add("is_diagonally_dominant.invariant", pr, "is_diagonally_dominant/%s+%s/%s/%s" % (v, t, "strict" if strict else "nonstrict", fld(cx)), n >= 2)
    # is_stochastic / is_nonnegative
    for n in sizes:
        for s in seeds:
            for t in ("left", "right", "doubly"):
                for v in ("built", "doubly-as", "perm", "sum-off", "neg-entry", "other-side-only", "other-side-only-right", "nonsquare"):
                    pr = dict(v=v, n=n, cx=False, type=t, seed=s)
                    try:
                        _, exp = _build("is_stochastic", pr)
                    except _NA:
                        continue
                    add("is_stochastic.%s" % ("true" if exp else "false"), pr, "is_stochastic/%s/%s" % (v, t), n >= 2)
            for t in ("nonnegative", "doubly"):
                for v in ("random", "with-zeros", "int", "neg-entry", "indefinite"):
                    pr = dict(v=v, n=n, cx=False, type=t, seed=s)
                    try:
                        _, exp = _build("is_nonnegative", pr)
                    except _NA:
                        continue
                    add("is_nonnegative.%s" % ("true" if exp else "false"), pr, "is_nonnegative/%s/%s" % (v, t), n >= 2)
        for t in ("left", "right", "doubly"):
            for tr in PREDS_X["is_stochastic"][2]:
                for v in ("built", "sum-off"):
                    add("is_stochastic.invariant", dict(v=v, n=n, cx=False, type=t, seed=seeds[-1], t=tr), "is_stochastic/%s+%s/%s" % (v, tr, t), n >= 2)
        for t in ("nonnegative", "doubly"):
            for tr in PREDS_X["is_nonnegative"][2]:
                for v in ("random", "neg-entry"):
                    add("is_nonnegative.invariant", dict(v=v, n=n, cx=False, type=t, seed=seeds[-1], t=tr), "is_nonnegative/%s+%s/%s" % (v, tr, t), n >= 2)
    for d_ in (2, 3, 4):
        for colv in (False, True):
            add("stateset.mixed_dtype", dict(d=d_, column=colv), "state-sets/mixed-dtype-list")
    # unextendible product bases
    for name, size in (("tiles", 5), ("shifts", 4), ("pyramid", 5), ("tiles-x-qubit", 10), ("qubit-x-tiles", 10)) + ((("shifts-x-qutrit", 12),) if thorough else ()):
        add("is_unextendible_product_basis.true", dict(v="upb", upb=name, n=size, cx=False, seed=0), "is_unextendible_product_basis/%s" % name)
        for k in range(size):
            add("is_unextendible_product_basis.false", dict(v="one-removed", upb=name, k=k, n=size, cx=False, seed=0), "is_unextendible_product_basis/%s-one-removed" % name)
            add("is_unextendible_product_basis.witness", dict(v="one-removed", upb=name, k=k, n=size, cx=False, seed=0), "is_unextendible_product_basis/%s-one-removed/real-vectors" % name)
            add("is_unextendible_product_basis.witness", dict(v="one-removed", upb=name, k=k, n=size, cx=True, seed=seeds[-1], t="upb-local"), "is_unextendible_product_basis/%s-one-removed/complex-vectors" % name)
        add("is_unextendible_product_basis.witness", dict(v="upb", upb=name, n=size, cx=False, seed=0), "is_unextendible_product_basis/%s" % name)
        add("is_unextendible_product_basis.witness", dict(v="two-product-vectors", upb=name, n=size, cx=False, seed=0), "is_unextendible_product_basis/%s-two-vectors/real-vectors" % name)
        add("is_unextendible_product_basis.witness", dict(v="two-product-vectors", upb=name, n=size, cx=True, seed=seeds[-1], t="upb-local"), "is_unextendible_product_basis/%s-two-vectors/complex-vectors" % name)
        add("is_unextendible_product_basis.false", dict(v="two-product-vectors", upb=name, n=size, cx=False, seed=0), "is_unextendible_product_basis/%s-two-vectors" % name)
        if name == "tiles":
            for av in ("asym-2x2", "asym-2x2-swapped", "asym-2x3", "asym-3x2"):
                add("is_unextendible_product_basis.false", dict(v=av, n=size, cx=False, seed=0), "is_unextendible_product_basis/asymmetric-extendible")
                add("is_unextendible_product_basis.witness", dict(v=av, n=size, cx=False, seed=0), "is_unextendible_product_basis/asymmetric-extendible/real-vectors")
                add("is_unextendible_product_basis.witness", dict(v=av, n=size, cx=True, seed=seeds[-1], t="upb-local"), "is_unextendible_product_basis/asymmetric-extendible/complex-vectors")
                add("is_unextendible_product_basis.invariant", dict(v=av, n=size, cx=True, seed=seeds[-1], t="upb-perm-phase"), "is_unextendible_product_basis/asymmetric-extendible+upb-perm-phase")
        for tr in PREDS_X["is_unextendible_product_basis"][2]:
            for s in seeds[1:]:
                add("is_unextendible_product_basis.invariant", dict(v="upb", upb=name, n=size, cx=True, seed=s, t=tr), "is_unextendible_product_basis/%s+%s" % (name, tr))
                add("is_unextendible_product_basis.invariant", dict(v="one-removed", k=1, upb=name, n=size, cx=True, seed=s, t=tr), "is_unextendible_product_basis/%s-one-removed+%s" % (name, tr))

    # ------------------------------------------------------------------ helpers
    for shape in itertools.product(range(1, 6 if thorough else 5), repeat=2):
        add("vec.index", dict(shape=list(shape), entries="arange"), "vec/index", shape != (1, 1))
        add("unvec.index", dict(shape=list(shape), entries="arange"), "unvec/index", shape != (1, 1))
        add("unvec.index", dict(shape=list(shape), entries="complex", form="column"), "unvec/index-column", shape != (1, 1))
    add("vec.index", dict(shape=[2, 3], entries="sym"), "vec/index")
    add("unvec.index", dict(shape=[3, 2], entries="sym"), "unvec/index")
    top = 5 if thorough else 4
    for shape in itertools.product(range(1, top + 1), repeat=4):
        for cx in (False, True):
            add("vec.kron_identity", dict(shape=list(shape), cx=cx, seed=seeds[-1]), "vec/AXB/%s" % fld(cx), shape != (1, 1, 1, 1))
    mshapes = [[1, 1], [2, 2], [2, 3], [3, 1], [1, 3], [3, 2]]
    for a, b, c in itertools.product(mshapes, repeat=3):
        for cx in (False, True):
            add("tensor.assoc", dict(shapes=[a, b, c], cx=cx, seed=seeds[-1]), "tensor/3-matrices/%s" % fld(cx))
    for a, b in itertools.product(mshapes, repeat=2):
        add("tensor.assoc", dict(shapes=[a, b], cx=True, seed=seeds[-1]), "tensor/2-matrices/complex")
    for dims in itertools.product((1, 2, 3), repeat=3):
        add("tensor.assoc", dict(shapes=[[d] for d in dims], cx=True, seed=seeds[-1]), "tensor/3-vectors/complex")
    for k in (4, 5):
        add("tensor.assoc", dict(shapes=[[2, 2]] * k, cx=True, seed=seeds[-1]), "tensor/%d-matrices/complex" % k)
        add("tensor.assoc", dict(shapes=[[2]] * k, cx=False, seed=seeds[-1]), "tensor/%d-vectors/real" % k)
    add("tensor.assoc", dict(shapes=[[2, 3]], cx=True, seed=0), "tensor/1-matrix/complex")
    for shp in ([1, 1], [2, 2], [2, 3], [3, 2], [2], [3], [2, 1], [1, 2]):
        sz = shp[0] * (shp[1] if len(shp) > 1 else 1)
        for n in range(0, 8):
            if sz**n <= 4096 and (n <= 5 or sz <= 2):
                for cx in (False, True):
                    add("tensor.power", dict(shape=shp, power=n, cx=cx, seed=seeds[-1]), "tensor/power/%s/%s" % ("vector" if len(shp) == 1 else "matrix", fld(cx)), n >= 2)
                add("tensor.power", dict(shape=shp, power=n, cx=False, int=True, seed=seeds[-1]), "tensor/power/int", n >= 2)
    for n in sizes:
        for cx in (False, True):
            for r in range(1, n + 1):
                for s in seeds:
                    cls = "full-rank" if r == n else "rank-deficient"
                    add("gram.roundtrip", dict(n=n, r=r, cx=cx, kind="generic", seed=s), "gram/%s/%s" % (cls, fld(cx)), n >= 2)
                    if r < n:
                        add("gram.roundtrip", dict(n=n, r=r, cx=cx, kind="isometric", seed=s), "gram/rank-deficient-degenerate-spectrum/%s" % fld(cx))
                    else:
                        add("gram.roundtrip", dict(n=n, r=r, cx=cx, kind="isometric", seed=s), "gram/full-rank-degenerate-spectrum/%s" % fld(cx), n >= 2)
                add("gram.definition", dict(n=n, r=r, cx=cx, kind="generic", seed=seeds[-1], form="1d"), "gram/definition/%s" % fld(cx), n >= 2)
                add("gram.definition", dict(n=n, r=r, cx=cx, kind="generic", seed=seeds[-1], form="column"), "gram/definition-column/%s" % fld(cx), n >= 2)
    add("gram.roundtrip", dict(n=3, r=2, cx=False, kind="trine", seed=0), "gram/rank-deficient-degenerate-spectrum/real")
    add("gram.definition", dict(n=3, r=2, cx=False, kind="trine", seed=0), "gram/definition/real")

    def partitions(n, maxpart=None):
        maxpart = maxpart or n
        if n == 0:
            yield []
            return
        for k in range(min(n, maxpart), 0, -1):
            for rest in partitions(n - k, k):
                yield [k] + rest

    for n in range(1, 6 if thorough else 5):
        for cx in (False, True):
            for part in partitions(n):
                for kind in ("normal-multiplicities", "diagonalisable-multiplicities"):
                    for form in ("list", "array"):
                        pr = dict(n=n, cx=cx, kind=kind, mult=part, form=form, seed=seeds[-1])
                        add("commutant.commutes", pr, "commutant/%s/%s" % (kind, fld(cx)), n >= 2)
                        add("commutant.dimension", pr, "commutant/%s/%s" % (kind, fld(cx)), n >= 2)
                if len(part) >= 1:
                    pr = dict(n=n, cx=cx, kind="block-algebra", blocks=part, seed=seeds[-1])
                    add("commutant.commutes", pr, "commutant/block-algebra/%s" % fld(cx), n >= 2)
                    add("commutant.dimension", pr, "commutant/block-algebra/%s" % fld(cx), n >= 2)
            for kind in ("jordan-block", "identity"):
                pr = dict(n=n, cx=cx, kind=kind, form="array", seed=0)
                add("commutant.commutes", pr, "commutant/%s" % kind, n >= 2)
                add("commutant.dimension", pr, "commutant/%s" % kind, n >= 2)
            for k in range(1, n + 1):
                if n % k == 0:
                    pr = dict(n=n, cx=cx, kind="algebra-tensor-identity", k=k, m=n // k, seed=seeds[-1])
                    add("commutant.commutes", pr, "commutant/algebra-tensor-identity/%s" % fld(cx), n >= 2)
                    add("commutant.dimension", pr, "commutant/algebra-tensor-identity/%s" % fld(cx), n >= 2)
    for n in (6,):
        for cx in (False, True):
            for pr in (dict(n=6, cx=cx, kind="algebra-tensor-identity", k=2, m=3, seed=seeds[-1]), dict(n=6, cx=cx, kind="algebra-tensor-identity", k=3, m=2, seed=seeds[-1]), dict(n=6, cx=cx, kind="normal-multiplicities", mult=[3, 2, 1], form="array", seed=seeds[-1])):
                add("commutant.commutes", pr, "commutant/%s/%s" % (pr["kind"], fld(cx)))
                add("commutant.dimension", pr, "commutant/%s/%s" % (pr["kind"], fld(cx)))
    add("commutant.commutes", dict(n=2, cx=False, kind="pauli-xz", seed=0), "commutant/pauli-xz")
    add("commutant.dimension", dict(n=2, cx=False, kind="pauli-xz", seed=0), "commutant/pauli-xz")
    for n in sizes:
        for s in seeds + [seeds[-1] + 1, seeds[-1] + 2]:
            for kind in ("doubly-stochastic-image", "reflexive-permuted", "random-pair", "reversed", "int-lists"):
                pr = dict(n=n, kind=kind, cx=False, seed=s)
                d = _majorizes_direction(pr)
                if d:
                    add("majorizes.%s" % d, pr, "majorizes/%s" % kind, n >= 2)
            for m in (max(1, n - 2), n + 2):
                pr = dict(n=n, m=m, kind="random-pair", cx=False, seed=s)
                d = _majorizes_direction(pr)
                if d:
                    add("majorizes.%s" % d, pr, "majorizes/different-lengths", True)
            for cx in (False, True):
                pr = dict(n=n, kind="matrices", cx=cx, seed=s)
                d = _majorizes_direction(pr)
                if d:
                    add("majorizes.%s" % d, pr, "majorizes/matrices/%s" % fld(cx), n >= 2)
    for m in sizes:
        for nc in sizes:
            if thorough or (m <= 5 and nc <= 6):
                for cx in (False, True):
                    for s in seeds[-1:]:
                        add("spark.bruteforce", dict(m=m, ncols=nc, kind="generic", cx=cx, seed=s), "spark/generic/%s" % fld(cx), m * nc > 1)
                        add("spark.bruteforce", dict(m=m, ncols=nc, kind="zero-column", cx=cx, seed=s), "spark/zero-column/%s" % fld(cx), m * nc > 1)
                        if nc >= 2:
                            add("spark.bruteforce", dict(m=m, ncols=nc, kind="parallel-columns", cx=cx, seed=s), "spark/parallel-columns/%s" % fld(cx))
                        for k in range(3, min(m + 1, nc) + 1):
                            add("spark.bruteforce", dict(m=m, ncols=nc, kind="dependent-k", k=k, cx=cx, seed=s), "spark/dependent-k/%s" % fld(cx))
        add("spark.bruteforce", dict(m=m, ncols=m + 1, kind="identity-plus-ones", cx=False, seed=0), "spark/identity-plus-ones")
    for m in sizes:
        for nc in sizes:
            for cx in (False, True):
                add("kp_norm.svd", dict(m=m, ncols=nc, cx=cx, ps=[1, 2, 3, "inf"], seed=seeds[-1]), "kp_norm/generic/%s" % fld(cx), m * nc > 1)
                if min(m, nc) >= 2:
                    add("kp_norm.svd", dict(m=m, ncols=nc, cx=cx, ps=[1, 2, 4], rankdef=True, seed=seeds[-1]), "kp_norm/rank-deficient/%s" % fld(cx))
                add("trace_norm.svd", dict(m=m, ncols=nc, cx=cx, kind="generic", seed=seeds[-1]), "trace_norm/generic/%s" % fld(cx), m * nc > 1)
        for cx in (False, True):
            for kind in ("hermitian", "density", "difference-of-states"):
                add("trace_norm.svd", dict(m=m, ncols=m, cx=cx, kind=kind, seed=seeds[-1]), "trace_norm/%s/%s" % (kind, fld(cx)), m > 1)
    for kind in ("is_square/1d", "is_square/3d", "is_pseudo_unitary/negative-p", "is_pseudo_unitary/negative-q", "is_pseudo_hermitian/non-hermitian-signature", "is_pseudo_hermitian/singular-signature", "is_stochastic/bad-type", "is_nonnegative/bad-type", "is_totally_positive/empty", "spark/1d", "spark/list", "is_mutually_orthogonal/one-vector", "is_mutually_orthogonal/empty", "is_unextendible_product_basis/dims-mismatch", "is_unextendible_product_basis/non-product", "vectors_to_gram_matrix/different-lengths", "vectors_from_gram_matrix/non-square"):
        add("errors.documented", dict(kind=kind), "errors/" + kind)
    return out


# =============================================================================================
# replay clause and cases of the E1-term matrix-predicate contracts (main agent)
# =============================================================================================
from props.C16_prove import EXTRA_CLAUSES as _EXTRA  # noqa: E402
from props.C16_prove import extra_cases as _extra_cases  # noqa: E402

CLAUSES.update(_EXTRA)
_cases_bounded = cases


def cases(tier, seed):  # noqa: F811
    return _cases_bounded(tier, seed) + _extra_cases(tier, seed)


# =============================================================================================
# E1-array/bilinear additions (helpers with symbolic lengths)
# =============================================================================================
from props.C17_bilinear import ASSUMED as _BIL_ASSUMED  # noqa: E402

ASSUMPTIONS = list(ASSUMPTIONS) + list(_BIL_ASSUMED)
LEVEL_TEXT = LEVEL_TEXT + (" Also proved for ALL lengths / shapes (E1-array/bilinear; 1..3 vectors): vectors_to_gram_matrix returns G[i,j] = <v_i, v_j> for 1-D and column inputs, "
                           "to_density_matrix returns |v><v| for 1-D / column / row vectors and the matrix itself for square input; lemmas over the contracts of vec and tensor: "
                           "vec(A X B) = (B^T (x) A) vec(X) and associativity of the Kronecker product, for all rectangular shapes.")
EXPLANATION = LEVEL_TEXT

# =============================================================================================
# frame coverage shared by all properties (E2 obligations for every public function of the anchor files + run-time frame cases)
# =============================================================================================
from props import frame_all as _fa  # noqa: E402
from props.frame_common import frame_generic as _fg, frame_object as _fo  # noqa: E402

CLAUSES.setdefault("frame.generic", _fg)
CLAUSES.setdefault("frame.object", _fo)
_cases_before_frames = cases
_prove_before_frames = globals().get("prove")


def cases(tier, seed):  # noqa: F811
    return _cases_before_frames(tier, seed) + _fa.frame_cases(ID, seed)


def prove(tier, seed):  # noqa: F811
    from vt.pyvc.termproofs import merge

    b = _fa.prove_frames(ID, lambda s: _fa.frame_cases(ID, s))(tier, seed)
    if _prove_before_frames is None:
        return b
    return merge(_prove_before_frames(tier, seed), b)


# ---------------------------------------------------------------------------------------------
# additional cases (main agent): three or more bases with a non-adjacent biased pair; majorisation of spectra of different length
def _mub_set3(d):
    import numpy as np

    if d == 2:
        z = [np.array([1.0, 0.0]), np.array([0.0, 1.0])]
        x = [np.array([1.0, 1.0]) / np.sqrt(2), np.array([1.0, -1.0]) / np.sqrt(2)]
        y = [np.array([1.0, 1j]) / np.sqrt(2), np.array([1.0, -1j]) / np.sqrt(2)]
        return [z, x, y]
    w = np.exp(2j * np.pi / d)
    bases = [[np.eye(d)[:, m].astype(complex) for m in range(d)]]
    for k in range(d):  # odd prime d: vectors (1/sqrt d) w^(k j^2 + m j)
        bases.append([np.array([w ** (k * j * j + m * j) for j in range(d)]) / np.sqrt(d) for m in range(d)])
    return bases


def mub_nonadjacent(p):
    """mutual unbiasedness is a property of every PAIR of bases, whatever the order in which the bases are listed"""
    import itertools

    import numpy as np

    from toqito.state_props import is_mutually_unbiased_basis
    from vt.contract import Violation

    d = p["d"]
    B = _mub_set3(d)
    for order in itertools.permutations(range(len(B)), 3):
        vs = [v for i in order for v in B[i]]
        if not is_mutually_unbiased_basis(vs):
            raise Violation("three mutually unbiased bases of dimension %d listed in order %s are rejected" % (d, order))
    rng = np.random.default_rng(p.get("seed", 0))
    perm = rng.permutation(d)
    for a, b in ((0, 1), (1, 2), (0, 2)):
        # bases a, b, a' : a' is basis a with its vectors permuted and re-phased -- orthonormal, unbiased with b, but NOT with a
        a2 = [np.exp(1j * rng.uniform(0, 2 * np.pi)) * B[a][int(i)] for i in perm]
        for arrangement in ([B[a], B[b], a2], [a2, B[b], B[a]], [B[a], a2, B[b]], [B[b], B[a], a2]):
            vs = [v for blk in arrangement for v in blk]
            if is_mutually_unbiased_basis(vs):
                raise Violation("a list of three bases of dimension %d in which two bases coincide up to phases was accepted as mutually unbiased (biased pair non-adjacent or adjacent)" % d)


def majorizes_padded(p):
    """majorisation of vectors / spectra of different length: the shorter one is padded with zeros (singular-value definition)"""
    import numpy as np

    from toqito.matrix_props import majorizes
    from vt.contract import Violation

    rng = np.random.default_rng(p.get("seed", 0))

    def ref(a, b):
        n = max(len(a), len(b))
        x = np.sort(np.concatenate([np.asarray(a, float), np.zeros(n - len(a))]))[::-1]
        y = np.sort(np.concatenate([np.asarray(b, float), np.zeros(n - len(b))]))[::-1]
        cx, cy = np.cumsum(x), np.cumsum(y)
        margin = np.min(cx - cy)
        return margin, bool(np.all(cx >= cy - 1e-12))

    fixed = [([1.0, 1.0], [1.0, 0.5, 0.5, 0.5]), ([1.0, 0.5, 0.5, 0.5], [1.0, 1.0]), ([3.0], [1.0, 1.0, 1.0]), ([1.0, 1.0, 1.0], [3.0]), ([2.0, 1.0], [1.0, 1.0, 1.0, 0.5])]
    for a, b in fixed + [(list(rng.random(rng.integers(1, 4)) + 0.1), list(rng.random(rng.integers(3, 7)) + 0.1)) for _ in range(20)]:
        margin, exp = ref(a, b)
        if abs(margin) < 1e-6:
            continue
        got = bool(majorizes(np.array(a), np.array(b)))
        if got != exp:
            raise Violation("majorizes(%s, %s) = %s; zero-padded partial sums give %s" % (np.round(a, 3).tolist(), np.round(b, 3).tolist(), got, exp))
    # matrices of different size: compared through their singular values
    for _ in range(6):
        A = rng.standard_normal((2, 2))
        Bm = rng.standard_normal((4, 4)) * rng.uniform(0.2, 1.5)
        sa, sb = np.linalg.svd(A, compute_uv=False), np.linalg.svd(Bm, compute_uv=False)
        margin, exp = ref(sa, sb)
        if abs(margin) < 1e-6:
            continue
        got = bool(majorizes(A, Bm))
        if got != exp:
            raise Violation("majorizes(2x2 matrix, 4x4 matrix) = %s; singular values %s vs %s give %s" % (got, np.round(sa, 3).tolist(), np.round(sb, 3).tolist(), exp))


mub_nonadjacent.function = "is_mutually_unbiased_basis"
majorizes_padded.function = "majorizes"
CLAUSES["mub.nonadjacent"] = mub_nonadjacent
CLAUSES["majorizes.padded"] = majorizes_padded
_cases_before_extra2 = cases


def cases(tier, seed):  # noqa: F811
    out = _cases_before_extra2(tier, seed)
    for d in (2, 3, 5):
        out.append(dict(clause="mub.nonadjacent", params=dict(d=d, seed=seed), input_class="is_mutually_unbiased_basis/three-bases/d=%d" % d, nontrivial=True))
    for s in range(3):
        out.append(dict(clause="majorizes.padded", params=dict(seed=seed + s), input_class="majorizes/different-lengths", nontrivial=True))
    return out

if LEVEL == "exploration":
    LEVEL = "other"
LEVEL_TEXT = LEVEL_TEXT + (" Additionally proved (E2, taint analysis of the real AST): every public function and method in this property's anchor files writes through "
                           "no reference reachable from its arguments (or from self), so results do not depend on call order and callers' arrays / lists are not modified; "
                           "a run-time frame clause replays the same claim on concrete arguments.")
EXPLANATION = LEVEL_TEXT
if "E2-frame" not in globals().get("ENGINES", []):
    ENGINES = list(globals().get("ENGINES", ["E3-E4-rtc"])) + ["E2-frame"]
