"""C16 -- matrix / state-set predicates and linear-algebra helpers match their definitions."""
from __future__ import annotations

import itertools

ID = "C16"
TITLE = "matrix and state-set predicates and linear-algebra helpers match definitions"
LEVEL = "other"
BUDGET = {"quick": 90, "thorough": 900}
ENGINES = ["E1-pyvc", "E3-E4-rtc"]
TECHNIQUE = "run-time-checked contracts on the real functions over a bounded domain (bounded stand-in); vec/unvec/tensor-power additionally by VCs from the real AST"
LEVEL_TEXT = (
    "Bounded (run-time contracts, never counted as proved): every predicate of toqito.matrix_props and the six state-set predicates is called on "
    "matrices of size 1..6, real and complex, that satisfy its definition by construction (exactly, and with 1e-12 noise where the predicate is "
    "tolerance-based) and on the same matrices perturbed so that the defining equation fails by >= 1e-2 (tolerances are 1e-5 relative / 1e-8 absolute), "
    "and on images of both under the transformations that preserve the property; the verdict must be the one implied by the definition. Helper "
    "identities (vec/unvec, vec(AXB), tensor associativity and powers, Gram round trip, commutant, majorizes, spark, kp_norm, trace_norm) are checked "
    "against independent numpy oracles (explicit index formulas, SVD, brute force) for all small conformable shapes."
)
RULE = (
    "Deterministic grid: predicate x variant (kinds of satisfying / violating input) x size 1..6 x {real, complex}, plus every listed invariance "
    "transformation applied to one satisfying and one violating base per size; helper identities over all shapes <= 4 (vec(AXB)), <= 3 factors (tensor), "
    "ranks 1..n (Gram). VERIF_SEED adds random instances of the same kinds. Non-trivial = size >= 2 (or the only size where the kind exists); "
    "distinct = distinct (clause, parameters)."
)
EXPLANATION = LEVEL_TEXT
TRUSTED = [
    "oracles use numpy/LAPACK (SVD, eigvalsh, QR) independently of toqito; LAPACK-level tolerance 1e-7, index results 1e-9",
    "predicates are judged only on inputs whose defining equation holds to <= 1e-11 or fails by >= 1e-2 (>= 10x the predicate's tolerance); boundary inputs are not judged",
    "Hermitian inputs are built exactly ((A + A^dagger)/2) because is_positive_definite compares with np.array_equal",
    "is_projection is judged only where 'idempotent' and the documented 'PSD and idempotent' agree (a repository test pins True on an oblique idempotent, the docstring says PSD)",
    "Haar unitaries by QR of Ginibre matrices; seeded np.random.default_rng",
]
ASSUMPTIONS = TRUSTED

# =============================================================================================
# executor side
# =============================================================================================
import numpy as np  # noqa: E402

from vt.contract import Undecided, Violation  # noqa: E402,F401

TOL = 1e-7


class _NA(Exception):
    """this variant does not exist for this size / field (e.g. a real 1x1 matrix is always Hermitian)"""


def _rng(p, salt=0):
    return np.random.default_rng([int(p.get("seed", 0)), int(p.get("n", 0)), 1 if p.get("cx") else 0, int(salt)])


def _gin(rng, shape, cx):
    A = rng.standard_normal(shape)
    if cx:
        A = A + 1j * rng.standard_normal(shape)
    return A


def _haar(rng, n, cx):
    if n == 0:
        return np.zeros((0, 0), dtype=complex if cx else float)
    A = _gin(rng, (n, n), cx)
    q, r = np.linalg.qr(A)
    d = np.diag(r)
    return q * (d / np.abs(d))


def _herm(A):
    return (A + A.conj().T) / 2


def _dag(A):
    return A.conj().T


def _mixer(rng, n, cx, lo=1.0, hi=2.0):
    """well-conditioned invertible matrix (condition number <= hi/lo)"""
    s = np.linspace(lo, hi, n) if n > 1 else np.array([hi])
    return _haar(rng, n, cx) @ np.diag(s) @ _haar(rng, n, cx)


def _E(n, i, j, cx=False):
    M = np.zeros((n, n), dtype=complex if cx else float)
    M[i, j] = 1
    return M


def _perm_matrix(perm, dtype=float):
    n = len(perm)
    P = np.zeros((n, n), dtype=dtype)
    for i, j in enumerate(perm):
        P[j, i] = 1
    return P


def _projector(rng, n, r, cx):
    U = _haar(rng, n, cx)
    V = U[:, :r]
    return V @ _dag(V)


# ---------------------------------------------------------------------------------------------
# builders: (params, rng) -> (args tuple, expected verdict)
# ---------------------------------------------------------------------------------------------
def b_is_hermitian(p, rng):
    v, n, cx = p["v"], p["n"], p["cx"]
    H = _herm(_gin(rng, (n, n), cx))
    if v == "exact":
        return (H,), True
    if v == "noise":
        return (H + 1e-12 * _gin(rng, (n, n), cx),), True
    if v == "int":
        A = rng.integers(-5, 6, (n, n))
        return (A + A.T,), True
    if v == "offdiag":
        if n < 2:
            raise _NA
        H[0, 1] += (0.3 + 0.2j) if cx else 0.3
        return (H,), False
    if v == "imag-diag":
        if not cx:
            raise _NA
        H[n - 1, n - 1] += 0.3j
        return (H,), False
    if v == "nonsquare":
        return (_gin(rng, (n, n + 1), cx),), False
    raise KeyError(v)


def b_is_anti_hermitian(p, rng):
    v, n, cx = p["v"], p["n"], p["cx"]
    A = _gin(rng, (n, n), cx)
    K = (A - _dag(A)) / 2
    if v == "exact":
        if n == 1 and not cx:
            return (np.zeros((1, 1)),), True
        return (K,), True
    if v == "noise":
        return (K + 1e-12 * _gin(rng, (n, n), cx),), True
    if v == "i-times-hermitian":
        if not cx:
            raise _NA
        return (1j * _herm(A),), True
    if v == "real-diag":
        K[0, 0] += 0.3
        return (K,), False
    if v == "offdiag":
        if n < 2:
            raise _NA
        K[0, 1] += 0.3
        return (K,), False
    if v == "hermitian":
        H = _herm(A) + np.eye(n)
        return (H,), False
    if v == "nonsquare":
        return (_gin(rng, (n, n + 1), cx),), False
    raise KeyError(v)


def b_is_symmetric(p, rng):
    v, n, cx = p["v"], p["n"], p["cx"]
    A = _gin(rng, (n, n), cx)
    S = (A + A.T) / 2
    if v == "exact":
        return (S,), True
    if v == "noise":
        return (S + 1e-12 * _gin(rng, (n, n), cx),), True
    if v == "offdiag":
        if n < 2:
            raise _NA
        S[0, 1] += 0.3
        return (S,), False
    if v == "hermitian-not-symmetric":
        if not cx or n < 2:
            raise _NA
        H = _herm(A)
        H[0, 1] = 0.2 + 0.4j
        H[1, 0] = 0.2 - 0.4j
        return (H,), False
    if v == "nonsquare":
        return (_gin(rng, (n, n + 1), cx),), False
    raise KeyError(v)


def _normal(rng, n, cx):
    if cx:
        U = _haar(rng, n, True)
        d = rng.standard_normal(n) + 1j * rng.standard_normal(n)
        return U @ np.diag(d) @ _dag(U)
    Q = _haar(rng, n, False)
    if n >= 2:
        # real normal, neither symmetric nor orthogonal in general: block rotations with scalings
        B = np.zeros((n, n))
        i = 0
        while i + 1 < n:
            a, b = rng.standard_normal(2)
            B[i : i + 2, i : i + 2] = [[a, -b], [b, a]]
            i += 2
        if i < n:
            B[i, i] = rng.standard_normal()
        return Q @ B @ Q.T
    return rng.standard_normal((1, 1))


def b_is_normal(p, rng):
    v, n, cx = p["v"], p["n"], p["cx"]
    N = _normal(rng, n, cx)
    if v == "exact":
        return (N,), True
    if v == "noise":
        return (N + 1e-12 * _gin(rng, (n, n), cx),), True
    if v == "hermitian":
        return (_herm(_gin(rng, (n, n), cx)),), True
    if v == "unitary":
        return (_haar(rng, n, cx),), True
    if v == "triangular":
        if n < 2:
            raise _NA
        U = _haar(rng, n, cx)
        T = np.diag(np.arange(1, n + 1).astype(complex if cx else float))
        T[0, 1] = 0.5
        M = U @ T @ _dag(U)
        return (M,), False
    if v == "nonsquare":
        return (_gin(rng, (n, n + 1), cx),), False
    raise KeyError(v)


def b_is_unitary(p, rng):
    v, n, cx = p["v"], p["n"], p["cx"]
    U = _haar(rng, n, cx)
    if v == "exact":
        return (U,), True
    if v == "noise":
        return (U + 1e-12 * _gin(rng, (n, n), cx),), True
    if v == "perm":
        return (_perm_matrix(list(rng.permutation(n))),), True
    if v == "scaled":
        return (1.1 * U,), False
    if v == "column-scaled":
        D = np.ones(n)
        D[0] = 1.2
        return (U * D,), False
    if v == "isometry":
        W = _haar(rng, n + 1, cx)
        return (W[:, :n],), False
    if v == "singular":
        if n < 2:
            return (np.zeros((1, 1)),), False
        M = U.copy()
        M[:, 0] = M[:, 1]
        return (M,), False
    raise KeyError(v)


def _pseudo_unitary(rng, pp, qq, cx):
    n = pp + qq
    dt = complex if cx else float

    def blk():
        B = np.zeros((n, n), dtype=dt)
        if pp:
            B[:pp, :pp] = _haar(rng, pp, cx)
        if qq:
            B[pp:, pp:] = _haar(rng, qq, cx)
        return B

    A = blk()
    if pp and qq:
        t = 0.7
        Hy = np.eye(n, dtype=dt)
        Hy[0, 0] = Hy[pp, pp] = np.cosh(t)
        Hy[0, pp] = Hy[pp, 0] = np.sinh(t)
        A = A @ Hy @ blk()
    return A


def _sig(pp, qq):
    return np.diag(np.hstack((np.ones(pp), -np.ones(qq))))


def b_is_pseudo_unitary(p, rng):
    v, n, cx = p["v"], p["n"], p["cx"]
    pp = p.get("p", n // 2)
    qq = n - pp
    A = _pseudo_unitary(rng, pp, qq, cx)
    if v == "exact":
        return (A, pp, qq), True
    if v == "noise":
        return (A + 1e-12 * _gin(rng, (n, n), cx), pp, qq), True
    if v == "scaled":
        return (1.1 * A, pp, qq), False
    if v == "wrong-signature":
        if qq < 1:
            raise _NA
        J2 = _sig(pp + 1, qq - 1)
        if np.max(np.abs(_dag(A) @ J2 @ A - J2)) < 1e-2:
            raise _NA
        return (A, pp + 1, qq - 1), False
    if v == "size-mismatch":
        return (A, pp + 1, qq), False
    if v == "nonsquare":
        return (_gin(rng, (n, n + 1), cx), pp, qq), False
    raise KeyError(v)


def _eta(rng, n, cx):
    U = _haar(rng, n, cx)
    d = np.linspace(1.0, 2.0, n) * np.where(np.arange(n) % 2 == 0, 1.0, -1.0)
    return _herm(U @ np.diag(d) @ _dag(U))


def b_is_pseudo_hermitian(p, rng):
    v, n, cx = p["v"], p["n"], p["cx"]
    eta = _eta(rng, n, cx)
    S = _herm(_gin(rng, (n, n), cx))
    H = np.linalg.inv(eta) @ S
    if v == "exact":
        return (H, eta), True
    if v == "noise":
        return (H + 1e-12 * _gin(rng, (n, n), cx), eta), True
    if v == "hermitian-identity-signature":
        return (S, np.eye(n)), True
    if v == "imag-shift":
        if not cx:
            raise _NA
        return (H + 0.3j * np.eye(n), eta), False
    if v == "skew-part":
        if n < 2:
            raise _NA
        A = rng.standard_normal((n, n))
        K = (A - A.T) / 2
        M = H + 0.5 * np.linalg.inv(eta) @ K
        dev = np.max(np.abs(eta @ M @ np.linalg.inv(eta) - _dag(M)))
        if dev < 1e-2:
            raise _NA
        return (M, eta), False
    if v == "size-mismatch":
        return (_herm(_gin(rng, (n + 1, n + 1), cx)), eta), False
    raise KeyError(v)


def _pd(rng, n, cx):
    A = _gin(rng, (n, n), cx)
    return _herm(A @ _dag(A)) + 0.5 * np.eye(n)


def b_is_positive_definite(p, rng):
    v, n, cx = p["v"], p["n"], p["cx"]
    P = _pd(rng, n, cx)
    if v == "exact":
        return (P,), True
    if v == "diag":
        return (np.diag(rng.random(n) + 0.5),), True
    if v == "int-tridiag":
        M = 2 * np.eye(n, dtype=int) - np.eye(n, k=1, dtype=int) - np.eye(n, k=-1, dtype=int)
        return (M,), True
    w = np.linalg.eigvalsh(P)
    if v == "indefinite":
        if n < 2:
            raise _NA
        return (P - ((w[0] + w[-1]) / 2) * np.eye(n),), False
    if v == "negative-definite":
        return (-P,), False
    if v == "one-negative-eigenvalue":
        return (P - (w[0] + 0.3) * np.eye(n),), False
    if v == "non-hermitian":
        if not cx:
            raise _NA
        B = rng.standard_normal((n, n))
        return (P + 0.3j * (B + B.T + 3 * np.eye(n)),), False
    raise KeyError(v)


def b_is_positive_semidefinite(p, rng):
    v, n, cx = p["v"], p["n"], p["cx"]
    A = _gin(rng, (n, n), cx)
    G = A @ _dag(A)
    if v == "fullrank":
        return (G,), True
    if v == "rankdef":
        r = max(1, n // 2)
        B = _gin(rng, (n, r), cx)
        return (B @ _dag(B),), True
    if v == "zero":
        return (np.zeros((n, n)),), True
    if v == "noise":
        return (G + 1e-12 * _herm(_gin(rng, (n, n), cx)),), True
    w = np.linalg.eigvalsh(_herm(G))
    if v == "one-negative-eigenvalue":
        return (_herm(G) - (w[0] + 0.3) * np.eye(n),), False
    if v == "negative-definite":
        return (-G - 0.1 * np.eye(n),), False
    if v == "non-hermitian":
        if n >= 2:
            return (G + 0.3 * _E(n, 0, 1),), False
        if cx:
            return (G + 0.3j,), False
        raise _NA
    if v == "nonsquare":
        return (_gin(rng, (n, n + 1), cx),), False
    raise KeyError(v)


def b_is_projection(p, rng):
    v, n, cx = p["v"], p["n"], p["cx"]
    ranks = {"rank0": 0, "rank1": 1, "rankhalf": max(1, n // 2), "full": n}
    if v in ranks:
        return (_projector(rng, n, ranks[v], cx),), True
    if v == "noise":
        return (_projector(rng, n, max(1, n // 2), cx) + 1e-12 * _gin(rng, (n, n), cx),), True
    if v == "hermitian-not-idempotent":
        U = _haar(rng, n, cx)
        d = np.ones(n)
        d[0] = 0.5
        return (U @ np.diag(d) @ _dag(U),), False
    if v == "negative":
        return (-_projector(rng, n, max(1, n // 2), cx),), False
    if v == "nonsquare":
        return (np.eye(n, n + 1),), False
    raise KeyError(v)


def _oblique(rng, n, r, cx):
    S = _mixer(rng, n, cx)
    d = np.zeros(n)
    d[:r] = 1
    return S @ np.diag(d) @ np.linalg.inv(S)


def b_is_idempotent(p, rng):
    v, n, cx = p["v"], p["n"], p["cx"]
    if v == "orthogonal":
        return (_projector(rng, n, max(1, n // 2), cx),), True
    if v == "oblique":
        return (_oblique(rng, n, max(1, n // 2), cx),), True
    if v == "zero":
        return (np.zeros((n, n)),), True
    if v == "identity":
        return (np.eye(n),), True
    if v == "noise":
        return (_oblique(rng, n, max(1, n // 2), cx) + 1e-12 * _gin(rng, (n, n), cx),), True
    if v == "scaled":
        return (1.2 * _oblique(rng, n, max(1, n // 2), cx),), False
    if v == "perturbed":
        M = _oblique(rng, n, max(1, n // 2), cx) + 0.3 * _E(n, 0, n - 1)
        if np.max(np.abs(M @ M - M)) < 1e-2:
            raise _NA
        return (M,), False
    if v == "nonsquare":
        return (np.eye(n, n + 1),), False
    raise KeyError(v)


def b_is_identity(p, rng):
    v, n, cx = p["v"], p["n"], p["cx"]
    if v == "float":
        return (np.eye(n),), True
    if v == "int":
        return (np.eye(n, dtype=int),), True
    if v == "complex":
        return (np.eye(n, dtype=complex),), True
    if v == "noise":
        return (np.eye(n) + 1e-12 * _gin(rng, (n, n), cx),), True
    if v == "offdiag":
        if n < 2:
            raise _NA
        return (np.eye(n) + (0.1j if cx else 0.1) * _E(n, n - 1, 0, cx),), False
    if v == "scaled":
        return ((1.1 * np.eye(n)),), False
    if v == "phase":
        if not cx:
            return (-np.eye(n),), False
        return (1j * np.eye(n),), False
    if v == "perm":
        if n < 2:
            raise _NA
        return (np.roll(np.eye(n), 1, axis=0),), False
    if v == "diag-entry":
        M = np.eye(n)
        M[n - 1, n - 1] = 0.9
        return (M,), False
    if v == "nonsquare":
        return (np.eye(n, n + 1),), False
    raise KeyError(v)


def b_is_diagonal(p, rng):
    v, n, cx = p["v"], p["n"], p["cx"]
    d = rng.random(n) + 0.5
    if cx:
        d = d * np.exp(2j * np.pi * rng.random(n))
    D = np.diag(d)
    if v == "exact":
        return (D,), True
    if v == "int":
        return (np.diag(np.arange(1, n + 1)),), True
    if v == "fortran-order":
        return (np.asfortranarray(D),), True
    if v == "strided-view":
        big = np.zeros((2 * n, 2 * n), dtype=D.dtype)
        big[::2, ::2] = D
        big[1::2, :] = 7.0
        return (big[::2, ::2],), True
    if v == "offdiag":
        i, j = p["i"], p["j"]
        if i >= n or j >= n or i == j:
            raise _NA
        M = D.copy()
        M[i, j] = (0.1j if cx else 0.1)
        return (M,), False
    if v == "tiny-offdiag":
        if n < 2:
            raise _NA
        M = D.copy()
        M[n - 1, 0] = 1e-3
        return (M,), False
    if v == "nonsquare":
        M = np.zeros((n, n + 1), dtype=D.dtype)
        M[:, :n] = D
        return (M,), False
    raise KeyError(v)


_PYTH = [3 + 4j, 5 + 12j, 8 + 15j, 4 - 3j, -12 + 5j, 6 + 8j, 2 + 0j, 0 - 3j]


def _dd_int(rng, n, cx):
    """integer(-valued) matrix with |a_ii| == sum_j |a_ij| exactly in every row"""
    if cx:
        M = np.zeros((n, n), dtype=complex)
        for i in range(n):
            for j in range(n):
                if i != j:
                    M[i, j] = _PYTH[int(rng.integers(len(_PYTH)))]
        for i in range(n):
            s = float(np.sum(np.abs(M[i])))
            M[i, i] = s * [1, -1, 1j, -1j][int(rng.integers(4))]
        return M
    M = rng.integers(-3, 4, (n, n)).astype(float)
    for i in range(n):
        M[i, i] = 0
        M[i, i] = np.sum(np.abs(M[i])) * (1 if rng.random() < 0.5 else -1)
    return M


def _dd_margin(rng, n, cx, margin):
    M = _gin(rng, (n, n), cx)
    for i in range(n):
        M[i, i] = 0
        s = np.sum(np.abs(M[i]))
        ph = np.exp(2j * np.pi * rng.random()) if cx else (1 if rng.random() < 0.5 else -1)
        M[i, i] = (s + margin) * ph
    return M


def b_is_diagonally_dominant(p, rng):
    v, n, cx = p["v"], p["n"], p["cx"]
    strict = bool(p.get("strict", True))
    if v == "margin":
        return (_dd_margin(rng, n, cx, 0.5), strict), True
    if v == "equality-int":
        if n < 2:
            # 1x1: |a| > 0 strictly unless a == 0; use a == 0 (empty row sum): 0 >= 0 True, 0 > 0 False
            return (np.zeros((1, 1)), strict), (not strict)
        return (_dd_int(rng, n, cx), strict), (not strict)
    if v == "deficient-row":
        if n < 2:
            raise _NA
        M = _dd_margin(rng, n, cx, 0.5)
        i = n - 1
        s = np.sum(np.abs(M[i])) - np.abs(M[i, i])
        if s < 0.6:
            M[i, 0] += 1.0
            s = np.sum(np.abs(M[i])) - np.abs(M[i, i])
        M[i, i] = (s - 0.5) * (M[i, i] / np.abs(M[i, i]))
        return (M, strict), False
    if v == "nonsquare":
        M = np.zeros((n, n + 1))
        M[:, :n] = np.eye(n)
        return (M, strict), False
    raise KeyError(v)


def _density(rng, n, cx, r=None):
    r = r or n
    G = _gin(rng, (n, r), cx)
    rho = G @ _dag(G)
    return rho / np.trace(rho).real


def b_is_density(p, rng):
    v, n, cx = p["v"], p["n"], p["cx"]
    if v == "mixed":
        return (_density(rng, n, cx),), True
    if v == "pure":
        return (_density(rng, n, cx, 1),), True
    if v == "maxmixed":
        return (np.eye(n) / n,), True
    if v == "trace-1.1":
        return (1.1 * _density(rng, n, cx),), False
    if v == "trace-0.9":
        return (0.9 * _density(rng, n, cx),), False
    if v == "negative-eigenvalue":
        if n < 2:
            return (np.array([[-1.0]]),), False
        U = _haar(rng, n, cx)
        d = rng.random(n) + 0.1
        d[0] = 0
        d = 1.2 * d / d.sum()
        d[0] = -0.2
        return (U @ np.diag(d) @ _dag(U),), False
    if v == "non-hermitian":
        if n < 2:
            raise _NA
        return (_density(rng, n, cx) + 0.2 * _E(n, 0, 1),), False
    if v == "nonsquare":
        return (np.eye(n, n + 1) / n,), False
    raise KeyError(v)


def b_is_square(p, rng):
    r, c = p["r"], p["c"]
    return (_gin(rng, (r, c), p["cx"]),), (r == c)


def b_is_permutation(p, rng):
    v, n, cx = p["v"], p["n"], p["cx"]
    if v == "indexed":
        perms = list(itertools.permutations(range(n)))
        perm = perms[p["k"] % len(perms)]
        return (_perm_matrix(perm, complex if cx else float),), True
    perm = list(rng.permutation(n))
    P = _perm_matrix(perm, complex if cx else float)
    if v == "random":
        return (P,), True
    if v == "int":
        return (_perm_matrix(perm, int),), True
    if v == "neg-entries":
        if n < 2:
            raise _NA
        M = np.eye(n)
        M[:2, :2] = [[2, -1], [-1, 2]]
        return (M,), False
    if v == "doubly-stochastic":
        if n < 2:
            raise _NA
        return (0.5 * np.eye(n) + 0.5 * np.roll(np.eye(n), 1, axis=0),), False
    if v == "duplicate-row":
        if n < 2:
            raise _NA
        M = P.copy()
        M[1] = M[0]
        return (M,), False
    if v == "zero-row":
        M = P.copy()
        M[0] = 0
        return (M,), False
    if v == "scaled":
        return (2 * P,), False
    if v == "nonsquare":
        return (np.eye(n, n + 1),), False
    raise KeyError(v)


def _circulant(c):
    n = len(c)
    return np.array([[c[(j - i) % n] for j in range(n)] for i in range(n)])


def b_is_circulant(p, rng):
    v, n, cx = p["v"], p["n"], p["cx"]
    c = _gin(rng, (n,), cx)
    C = _circulant(c)
    if v == "exact":
        return (C,), True
    if v == "int":
        return (_circulant(np.arange(1, n + 1)),), True
    if v == "noise":
        return (C + 1e-12 * _gin(rng, (n, n), cx),), True
    if v == "entry":
        if n < 2:
            raise _NA
        M = C.copy()
        M[n - 1, 0] += 0.3
        return (M,), False
    if v == "left-circulant":
        # rows rotate to the LEFT (anti-circulant): not circulant for n >= 3 with generic entries
        if n < 3:
            raise _NA
        M = np.array([[c[(j + i) % n] for j in range(n)] for i in range(n)])
        if np.max(np.abs(M[1] - np.roll(M[0], 1))) < 1e-2:
            raise _NA
        return (M,), False
    if v == "toeplitz":
        if n < 3:
            raise _NA
        t = _gin(rng, (2 * n - 1,), cx)
        M = np.array([[t[j - i + n - 1] for j in range(n)] for i in range(n)])
        if np.max(np.abs(M[1] - np.roll(M[0], 1))) < 1e-2:
            raise _NA
        return (M,), False
    if v == "nonsquare":
        return (np.ones((n, n + 1)),), False
    raise KeyError(v)


def _right_stochastic(rng, n):
    M = rng.random((n, n)) + 0.05
    return M / M.sum(axis=1, keepdims=True)


def _doubly_stochastic(rng, n):
    w = rng.random(4) + 0.1
    w /= w.sum()
    M = np.zeros((n, n))
    for k in range(4):
        M += w[k] * _perm_matrix(list(rng.permutation(n)))
    return M


def b_is_stochastic(p, rng):
    v, n, t = p["v"], p["n"], p["type"]
    if v == "built":
        M = _doubly_stochastic(rng, n) if t == "doubly" else _right_stochastic(rng, n)
        return ((M.T if t == "left" else M), t), True
    if v == "doubly-as":
        return (_doubly_stochastic(rng, n), t), True
    if v == "perm":
        return (_perm_matrix(list(rng.permutation(n))), t), True
    if v == "sum-off":
        M = _doubly_stochastic(rng, n)
        M[n - 1] *= 1.1
        M[:, n - 1] *= 1.1
        return (M, t), False
    if v == "neg-entry":
        if n < 2:
            raise _NA
        M = _doubly_stochastic(rng, n) + 0.0
        # keep all row and column sums equal to one, make one entry negative
        M = np.eye(n)
        M[0, 0], M[0, 1], M[1, 0], M[1, 1] = 1.2, -0.2, -0.2, 1.2
        return (M, t), False
    if v == "other-side-only":
        if n < 2 or t == "right":
            raise _NA
        M = _right_stochastic(rng, n)
        if np.max(np.abs(M.sum(axis=0) - 1)) < 1e-2:
            raise _NA
        return (M, t), False  # right stochastic, asked for left / doubly
    if v == "other-side-only-right":
        if n < 2 or t == "left":
            raise _NA
        M = _right_stochastic(rng, n).T
        if np.max(np.abs(M.sum(axis=1) - 1)) < 1e-2:
            raise _NA
        return (M, t), False
    if v == "nonsquare":
        M = rng.random((n, n + 1))
        M = M / M.sum(axis=1, keepdims=True)
        return (M, t), False
    raise KeyError(v)


def b_is_nonnegative(p, rng):
    v, n, t = p["v"], p["n"], p["type"]
    if v == "random":
        if t == "doubly":
            B = rng.random((n, n))
            return (B @ B.T, t), True
        return (rng.random((n, n)), t), True
    if v == "with-zeros":
        if t == "doubly":
            return (np.eye(n), t), True
        M = rng.random((n, n))
        M[0, 0] = 0.0
        return (M, t), True
    if v == "int":
        if t == "doubly":
            return (np.ones((n, n), dtype=int) + np.eye(n, dtype=int), t), True
        return (rng.integers(0, 4, (n, n)), t), True
    if v == "neg-entry":
        if t == "doubly":
            if n < 2:
                return (np.array([[-0.5]]), t), False
            M = 2 * np.eye(n)
            M[0, 1] = M[1, 0] = -0.5  # PSD but not entrywise nonnegative
            return (M, t), False
        M = rng.random((n, n))
        M[n - 1, 0] = -0.1
        return (M, t), False
    if v == "indefinite":
        if t != "doubly" or n < 2:
            raise _NA
        M = np.ones((n, n)) - np.eye(n) + 0.1 * np.eye(n)  # eigenvalue 0.1 - 1 < 0
        return (M, t), False
    raise KeyError(v)


def b_is_positive(p, rng):
    v, n = p["v"], p["n"]
    M = rng.random((n, n)) + 0.1
    if v == "random":
        return (M,), True
    if v == "rectangular":
        return (rng.random((n, n + 2)) + 0.1,), True
    if v == "neg-entry":
        M[n - 1, 0] = -0.1
        return (M,), False
    if v == "zero-entry":
        M[0, n - 1] = 0.0
        return (M,), False
    raise KeyError(v)


def b_is_commuting(p, rng):
    v, n, cx = p["v"], p["n"], p["cx"]
    U = _haar(rng, n, cx)
    A = U @ np.diag(rng.standard_normal(n)) @ _dag(U)
    B = U @ np.diag(rng.standard_normal(n)) @ _dag(U)
    if v == "common-eigenbasis":
        return (A, B), True
    if v == "polynomial":
        M = _gin(rng, (n, n), cx) / max(1, n)
        return (M, 0.3 * np.eye(n) - 0.7 * M + 0.2 * M @ M), True
    if v == "with-identity":
        return (_gin(rng, (n, n), cx), 2.5 * np.eye(n)), True
    if v == "kron-factors":
        if n not in (4, 6):
            raise _NA
        a = n // 2
        X = _gin(rng, (2, 2), cx)
        Y = _gin(rng, (a, a), cx)
        return (np.kron(X, np.eye(a)), np.kron(np.eye(2), Y)), True
    if v == "generic":
        if n < 2:
            raise _NA
        X, Y = _gin(rng, (n, n), cx), _gin(rng, (n, n), cx)
        if np.max(np.abs(X @ Y - Y @ X)) < 1e-2:
            raise _NA
        return (X, Y), False
    if v == "perturbed":
        if n < 2:
            raise _NA
        B2 = B + 0.3 * _E(n, 0, 1)
        if np.max(np.abs(A @ B2 - B2 @ A)) < 1e-2:
            raise _NA
        return (A, B2), False
    if v == "pauli-xz":
        if n != 2:
            raise _NA
        return (np.array([[0, 1], [1, 0]]), np.array([[1, 0], [0, -1]])), False
    raise KeyError(v)


def b_is_orthonormal(p, rng):
    v, n, cx = p["v"], p["n"], p["cx"]
    k = p.get("k", n)
    if k < 2 or k > n:
        raise _NA
    V = _haar(rng, n, cx)[:k, :]
    if v == "rows-of-unitary":
        return (V,), True
    if v == "noise":
        return (V + 1e-12 * _gin(rng, (k, n), cx),), True
    if v == "list-input":
        return ([V[i].copy() for i in range(k)],), True
    if v == "orthogonal-not-normalised":
        W = V.copy()
        W[0] *= 1.2
        return (W,), False
    if v == "normalised-not-orthogonal":
        W = V.copy()
        w = W[0] + 0.3 * W[1]
        W[0] = w / np.linalg.norm(w)
        return (W,), False
    if v == "list-input-not-orthogonal":
        W = V.copy()
        w = W[0] + 0.3 * W[1]
        W[0] = w / np.linalg.norm(w)
        return ([W[i].copy() for i in range(k)],), False
    raise KeyError(v)


def b_is_linearly_independent(p, rng):
    v, n, cx = p["v"], p["n"], p["cx"]
    k = p.get("k", n)
    if v == "independent":
        if k > n or k < 1:
            raise _NA
        V = _haar(rng, n, cx)[:, :k] @ _mixer(rng, k, cx)
        return ([V[:, i].copy() for i in range(k)],), True
    if v == "column-vectors":
        if k > n or k < 1:
            raise _NA
        V = _haar(rng, n, cx)[:, :k] @ _mixer(rng, k, cx)
        return ([V[:, i].reshape(-1, 1).copy() for i in range(k)],), True
    if v == "combination":
        if k < 2 or k > n + 1:
            raise _NA
        V = _haar(rng, n, cx)[:, : k - 1] @ _mixer(rng, k - 1, cx) if k - 1 <= n else None
        c = _gin(rng, (k - 1,), cx)
        last = V @ c
        vs = [V[:, i].copy() for i in range(k - 1)] + [last]
        return (vs,), False
    if v == "repeated":
        if n < 1:
            raise _NA
        x = _gin(rng, (n,), cx)
        return ([x, 2.0 * x],), False
    if v == "too-many":
        V = _gin(rng, (n, n + 1), cx)
        return ([V[:, i].copy() for i in range(n + 1)],), False
    if v == "zero-vector":
        x = _gin(rng, (n,), cx)
        return ([x, np.zeros(n)],), False
    raise KeyError(v)


def _pascal(n):
    from math import comb

    return np.array([[comb(i + j, i) for j in range(n)] for i in range(n)], dtype=float)


def _vandermonde(n):
    x = np.arange(1, n + 1, dtype=float)
    return np.array([[x[i] ** j for j in range(n)] for i in range(n)])


def b_is_totally_positive(p, rng):
    v, n, cx = p["v"], p["n"], p["cx"]
    base = _pascal(n) if p.get("family", "pascal") == "pascal" else _vandermonde(n)
    if cx:
        base = base.astype(complex)
    if v == "exact":
        return (base,), True
    if v == "int":
        return (base.real.astype(int),), True
    if v == "neg-entry":
        M = base.copy()
        M[n - 1, 0] = -0.5
        return (M,), False
    if v == "row-swap":
        if n < 2:
            raise _NA
        M = base.copy()
        M[[0, 1]] = M[[1, 0]]
        return (M,), False
    if v == "complex-entry":
        if not cx:
            raise _NA
        M = base.copy()
        M[0, n - 1] += 0.5j
        return (M,), False
    raise KeyError(v)


# ---------------------------------------------------------------------------------------------
# state-set predicates
# ---------------------------------------------------------------------------------------------
def b_is_pure(p, rng):
    v, n, cx = p["v"], p["n"], p["cx"]
    pure = lambda: _density(rng, n, cx, 1)  # noqa: E731

    def mixed():
        if n < 2:
            raise _NA
        U = _haar(rng, n, cx)
        d = rng.random(n) + 0.2
        d = d / d.sum()
        d = np.minimum(d, 0.8)
        d = d / d.sum()
        if d.max() > 0.9:
            raise _NA
        return U @ np.diag(d) @ _dag(U)

    if v == "pure":
        return (pure(),), True
    if v == "basis-state":
        M = np.zeros((n, n))
        M[n - 1, n - 1] = 1
        return (M,), True
    if v == "list-all-pure":
        return ([pure() for _ in range(3)],), True
    if v == "mixed":
        return (mixed(),), False
    if v == "maxmixed":
        if n < 2:
            raise _NA
        return (np.eye(n) / n,), False
    if v == "list-one-mixed":
        return ([pure(), mixed(), pure()],), False
    raise KeyError(v)


def b_is_mixed(p, rng):
    args, exp = b_is_pure(p, rng)
    if isinstance(args[0], list):
        raise _NA
    return args, (not exp)


def b_is_ensemble(p, rng):
    v, n, cx = p["v"], p["n"], p["cx"]
    k = 3
    pr = rng.random(k) + 0.1
    pr /= pr.sum()
    ops = [pr[i] * _density(rng, n, cx, 1 + (i % n)) for i in range(k)]
    if v == "weighted-states":
        return (ops,), True
    if v == "single-state":
        return ([_density(rng, n, cx)],), True
    if v == "with-zero-operator":
        return (ops + [np.zeros((n, n))],), True
    if v == "total-0.9":
        return ([0.9 * o for o in ops],), False
    if v == "total-1.1":
        return ([1.1 * o for o in ops],), False
    if v == "negative-operator":
        if n < 2:
            return ([np.array([[1.5]]), np.array([[-0.5]])],), False
        U = _haar(rng, n, cx)
        d = np.zeros(n)
        d[0], d[1] = 0.3, -0.3
        bad = U @ np.diag(d) @ _dag(U)
        return (ops + [bad],), False  # traces still sum to one
    if v == "non-hermitian-operator":
        if n < 2:
            raise _NA
        return (ops[:2] + [ops[2] + 0.2 * _E(n, 0, 1)],), False
    raise KeyError(v)


def _fmt_vec(x, form):
    if form == "1d":
        return x.copy()
    if form == "column":
        return x.reshape(-1, 1).copy()
    if form == "list":
        return [complex(t) if np.iscomplexobj(x) else float(t) for t in x]
    raise KeyError(form)


def b_is_mutually_orthogonal(p, rng):
    v, n, cx = p["v"], p["n"], p["cx"]
    k = p.get("k", n)
    form = p.get("form", "1d")
    if k < 2 or k > n:
        raise _NA
    V = _haar(rng, n, cx)[:, :k] * (rng.random(k) + 0.5)
    if v == "orthogonal":
        return ([_fmt_vec(V[:, i], form) for i in range(k)],), True
    if v == "noise":
        V = V + 1e-12 * _gin(rng, (n, k), cx)
        return ([_fmt_vec(V[:, i], form) for i in range(k)],), True
    if v == "overlap":
        W = V.copy()
        W[:, k - 1] = W[:, k - 1] + 0.2 * W[:, 0]
        return ([_fmt_vec(W[:, i], form) for i in range(k)],), False
    if v == "repeated":
        W = V.copy()
        W[:, 1] = W[:, 0]
        return ([_fmt_vec(W[:, i], form) for i in range(k)],), False
    raise KeyError(v)


def _mub_set(d):
    """complete set of d+1 MUBs for prime d (independent closed form), as list of d x d arrays with basis vectors in columns"""
    w = np.exp(2j * np.pi / d)
    bases = [np.eye(d, dtype=complex)]
    if d == 2:
        bases.append(np.array([[1, 1], [1, -1]], dtype=complex) / np.sqrt(2))
        bases.append(np.array([[1, 1], [1j, -1j]], dtype=complex) / np.sqrt(2))
        return bases
    for a in range(d):
        B = np.array([[w ** ((a * j * j + k * j) % d) for k in range(d)] for j in range(d)]) / np.sqrt(d)
        bases.append(B)
    return bases


def _fourier(d):
    w = np.exp(2j * np.pi / d)
    return np.array([[w ** ((j * k) % d) for k in range(d)] for j in range(d)]) / np.sqrt(d)


def _max_bias(bases):
    d = bases[0].shape[0]
    worst = 0.0
    for a in range(len(bases)):
        for b in range(a + 1, len(bases)):
            worst = max(worst, float(np.max(np.abs(np.abs(_dag(bases[a]) @ bases[b]) ** 2 - 1.0 / d))))
    return worst


def b_is_mutually_unbiased_basis(p, rng):
    v, n = p["v"], p["n"]
    form = p.get("form", "1d")
    flat = lambda bases: [_fmt_vec(B[:, i], form) for B in bases for i in range(B.shape[1])]  # noqa: E731
    if v == "standard+fourier":
        return (flat([np.eye(n, dtype=complex), _fourier(n)]),), True
    if v == "complete-prime":
        if n not in (2, 3, 5):
            raise _NA
        return (flat(_mub_set(n)),), True
    if v == "three-of-complete":
        if n not in (3, 5):
            raise _NA
        return (flat(_mub_set(n)[1:4]),), True
    if v == "rotated-pair":
        U = _haar(rng, n, True)
        return (flat([U, U @ _fourier(n)]),), True
    if v == "biased-pair":
        if n < 2:
            raise _NA
        W = _haar(rng, n, True)
        bases = [np.eye(n, dtype=complex), W]
        if _max_bias(bases) < 0.05:
            raise _NA
        return (flat(bases),), False
    if v == "one-biased-of-three":
        if n not in (2, 3, 5):
            raise _NA
        S = _mub_set(n)
        th = 0.4
        R = np.eye(n, dtype=complex)
        R[:2, :2] = [[np.cos(th), -np.sin(th)], [np.sin(th), np.cos(th)]]
        bases = [S[0], S[1], R @ S[2]]
        if _max_bias(bases) < 0.05:
            raise _NA
        return (flat(bases),), False
    if v == "wrong-count":
        if n < 2:
            raise _NA
        return (flat([np.eye(n, dtype=complex), _fourier(n)])[:-1],), False
    if v == "blocks-not-orthonormal":
        # second block is a basis unbiased to e_0 only; first block repeats e_0: not a set of orthonormal bases
        if n < 2:
            raise _NA
        first = np.zeros((n, n), dtype=complex)
        first[0, :] = 1.0
        return (flat([first, _fourier(n)]),), False
    raise KeyError(v)


def _ket(d, i):
    x = np.zeros(d)
    x[i] = 1
    return x


def _upb(name):
    s2, s3 = np.sqrt(2), np.sqrt(3)
    if name == "tiles":
        e = [_ket(3, i) for i in range(3)]
        return [np.kron(e[0], e[0] - e[1]) / s2, np.kron(e[2], e[1] - e[2]) / s2, np.kron(e[0] - e[1], e[2]) / s2, np.kron(e[1] - e[2], e[0]) / s2, np.kron(e[0] + e[1] + e[2], e[0] + e[1] + e[2]) / 3], [3, 3]
    if name == "shifts":
        z0, z1 = _ket(2, 0), _ket(2, 1)
        pl, mi = (z0 + z1) / s2, (z0 - z1) / s2
        k3 = lambda a, b, c: np.kron(np.kron(a, b), c)  # noqa: E731
        return [k3(z0, z0, z0), k3(pl, z1, mi), k3(z1, mi, pl), k3(mi, pl, z1)], [2, 2, 2]
    if name == "pyramid":
        h = np.sqrt(1 + np.sqrt(5)) / 2
        N = 2 / np.sqrt(5 + np.sqrt(5))
        vs = [N * np.array([np.cos(2 * np.pi * j / 5), np.sin(2 * np.pi * j / 5), h]) for j in range(5)]
        return [np.kron(vs[j], vs[(2 * j) % 5]) for j in range(5)], [3, 3]
    raise KeyError(name)


def b_is_unextendible_product_basis(p, rng):
    v, name = p["v"], p.get("upb", "tiles")
    vecs, dims = _upb(name)
    if v == "upb":
        return (vecs, dims), True
    if v == "one-removed":
        k = p.get("k", 0) % len(vecs)
        return ([x for i, x in enumerate(vecs) if i != k], dims), False
    if v == "two-product-vectors":
        return (vecs[:2], dims), False
    raise KeyError(v)


# ---------------------------------------------------------------------------------------------
# property-preserving transformations: (args, rng, p) -> args   (they preserve the property AND its violation margin)
# ---------------------------------------------------------------------------------------------
def _on0(f):
    def g(args, rng, p):
        return (f(args[0], rng, p),) + tuple(args[1:])

    return g


def _sq(M):
    M = np.asarray(M)
    if M.ndim != 2 or M.shape[0] != M.shape[1]:
        raise _NA
    return M


T = {
    "conjU": _on0(lambda M, rng, p: (lambda U: U @ _sq(M) @ _dag(U))(_haar(rng, _sq(M).shape[0], p["cx"]))),
    "conjU-sym": _on0(lambda M, rng, p: (lambda U: _herm(U @ _sq(M) @ _dag(U)))(_haar(rng, _sq(M).shape[0], p["cx"]))),
    "congT": _on0(lambda M, rng, p: (lambda Q: Q @ _sq(M) @ Q.T)(_haar(rng, _sq(M).shape[0], p["cx"]))),
    "similarity": _on0(lambda M, rng, p: (lambda S: S @ _sq(M) @ np.linalg.inv(S))(_mixer(rng, _sq(M).shape[0], p["cx"]))),
    "transpose": _on0(lambda M, rng, p: np.asarray(M).T.copy()),
    "conj": _on0(lambda M, rng, p: np.asarray(M).conj()),
    "dagger": _on0(lambda M, rng, p: _dag(np.asarray(M))),
    "scale-real": _on0(lambda M, rng, p: -2.5 * np.asarray(M)),
    "scale-pos": _on0(lambda M, rng, p: 3.0 * np.asarray(M)),
    "scale-int": _on0(lambda M, rng, p: 2 * np.asarray(M)),
    "scale-complex": _on0(lambda M, rng, p: ((0.6 - 1.7j) if p["cx"] else -1.3) * np.asarray(M)),
    "phase": _on0(lambda M, rng, p: (np.exp(0.7j) if p["cx"] else -1.0) * np.asarray(M)),
    "shift-real": _on0(lambda M, rng, p: _sq(M) + 1.5 * np.eye(_sq(M).shape[0])),
    "shift-imag": _on0(lambda M, rng, p: _sq(M) + (1.5j if p["cx"] else 0.0) * np.eye(_sq(M).shape[0])),
    "shift-complex": _on0(lambda M, rng, p: _sq(M) + ((0.4 + 1.5j) if p["cx"] else 0.4) * np.eye(_sq(M).shape[0])),
    "mulU": _on0(lambda M, rng, p: _haar(rng, np.asarray(M).shape[0], p["cx"]) @ np.asarray(M)),
    "complement": _on0(lambda M, rng, p: np.eye(_sq(M).shape[0]) - _sq(M)),
    "perm-conj": _on0(lambda M, rng, p: (lambda P: P @ _sq(M) @ P.T)(_perm_matrix(list(rng.permutation(_sq(M).shape[0])), int))),
    "cyclic-conj": _on0(lambda M, rng, p: np.roll(np.roll(_sq(M), 1, axis=0), 1, axis=1)),
    "reverse-both": _on0(lambda M, rng, p: np.asarray(M)[::-1, ::-1].copy()),
    "row-scale-int": _on0(lambda M, rng, p: np.diag(2 ** np.arange(np.asarray(M).shape[0])) @ np.asarray(M)),
    "pos-diag-scalings": _on0(lambda M, rng, p: np.diag(np.arange(1, np.asarray(M).shape[0] + 1)) @ np.asarray(M) @ np.diag(np.arange(2, np.asarray(M).shape[1] + 2))),
}


def _t_swap_args(args, rng, p):
    return (args[1], args[0]) + tuple(args[2:])


def _t_simul_similarity(args, rng, p):
    S = _mixer(rng, args[0].shape[0], p["cx"])
    Si = np.linalg.inv(S)
    return (S @ args[0] @ Si, S @ args[1] @ Si)


def _t_scale_both(args, rng, p):
    return (2.0 * args[0], -0.5 * args[1])


def _t_pu_product(args, rng, p):
    A, pp, qq = args
    if A.shape[0] != pp + qq or A.shape[0] != A.shape[1]:
        raise _NA
    return (_pseudo_unitary(rng, pp, qq, p["cx"]) @ A, pp, qq)


def _t_pu_inverse(args, rng, p):
    A, pp, qq = args
    if A.shape[0] != pp + qq or A.shape[0] != A.shape[1]:
        raise _NA
    return (np.linalg.inv(A), pp, qq)


def _t_ph_add(args, rng, p):
    H, eta = args
    if H.shape != eta.shape:
        raise _NA
    S = _herm(_gin(rng, eta.shape, p["cx"]))
    return (H + np.linalg.inv(eta) @ S, eta)


def _t_ph_similarity(args, rng, p):
    H, eta = args
    if H.shape != eta.shape:
        raise _NA
    S = _mixer(rng, eta.shape[0], p["cx"])
    Si = np.linalg.inv(S)
    return (S @ H @ Si, _herm(_dag(Si) @ eta @ Si))


def _t_stoch_transpose(args, rng, p):
    M, t = args
    return (np.asarray(M).T.copy(), {"left": "right", "right": "left", "doubly": "doubly"}[t])


def _t_stoch_perm(args, rng, p):
    M, t = args
    n, m = M.shape
    return (_perm_matrix(list(rng.permutation(n))) @ M @ _perm_matrix(list(rng.permutation(m))), t)


def _t_rows_unitary(args, rng, p):
    V = np.asarray(args[0])
    return (V @ _haar(rng, V.shape[1], p["cx"]),)


def _t_rows_perm_phase(args, rng, p):
    V = np.asarray(args[0])
    k = V.shape[0]
    ph = np.exp(2j * np.pi * rng.random(k)) if p["cx"] else rng.choice([-1.0, 1.0], k)
    return ((V * ph[:, None])[rng.permutation(k)],)


def _vlist_apply(f):
    def g(args, rng, p):
        vs = [np.asarray(x) for x in args[0]]
        shp = vs[0].shape
        M = np.column_stack([x.reshape(-1) for x in vs])
        M2 = f(M, rng, p)
        return ([M2[:, i].reshape(shp).copy() for i in range(M2.shape[1])],) + tuple(args[1:])

    return g


T_VL = {
    "apply-unitary": _vlist_apply(lambda M, rng, p: _haar(rng, M.shape[0], p["cx"] or np.iscomplexobj(M)) @ M),
    "apply-invertible": _vlist_apply(lambda M, rng, p: _mixer(rng, M.shape[0], p["cx"]) @ M),
    "mix-invertible": _vlist_apply(lambda M, rng, p: M @ _mixer(rng, M.shape[1], p["cx"])),
    "scale-each": _vlist_apply(lambda M, rng, p: M * ((rng.random(M.shape[1]) + 0.5) * (np.exp(2j * np.pi * rng.random(M.shape[1])) if (p["cx"] or np.iscomplexobj(M)) else rng.choice([-1.0, 1.0], M.shape[1])))),
    "phase-each": _vlist_apply(lambda M, rng, p: M * np.exp(2j * np.pi * rng.random(M.shape[1]))),
    "permute": _vlist_apply(lambda M, rng, p: M[:, rng.permutation(M.shape[1])]),
}


def _t_states_conjU(args, rng, p):
    if isinstance(args[0], list):
        n = args[0][0].shape[0]
        U = _haar(rng, n, p["cx"])
        return ([U @ r @ _dag(U) for r in args[0]],)
    U = _haar(rng, args[0].shape[0], p["cx"])
    return (U @ args[0] @ _dag(U),)


def _t_states_permute(args, rng, p):
    if not isinstance(args[0], list):
        raise _NA
    idx = rng.permutation(len(args[0]))
    return ([args[0][i] for i in idx],)


def _t_states_split(args, rng, p):
    if not isinstance(args[0], list):
        raise _NA
    return ([0.25 * args[0][0], 0.75 * args[0][0]] + list(args[0][1:]),)


def _t_mub_within(args, rng, p):
    vs = args[0]
    d = np.asarray(vs[0]).reshape(-1).shape[0]
    if len(vs) % d:
        raise _NA
    out = []
    for b in range(len(vs) // d):
        blk = vs[b * d : (b + 1) * d]
        out += [blk[i] for i in rng.permutation(d)]
    return (out,)


def _t_mub_order(args, rng, p):
    vs = args[0]
    d = np.asarray(vs[0]).reshape(-1).shape[0]
    if len(vs) % d:
        raise _NA
    nb = len(vs) // d
    out = []
    for b in rng.permutation(nb):
        out += vs[b * d : (b + 1) * d]
    return (out,)


def _t_upb_local(args, rng, p):
    vecs, dims = args
    U = None
    for d in dims:
        W = _haar(rng, d, True)
        U = W if U is None else np.kron(U, W)
    return ([U @ x for x in vecs], dims)


def _t_upb_perm_phase(args, rng, p):
    vecs, dims = args
    idx = rng.permutation(len(vecs))
    return ([np.exp(2j * np.pi * rng.random()) * vecs[i] for i in idx], dims)


# ---------------------------------------------------------------------------------------------
# registry
# ---------------------------------------------------------------------------------------------
# name: (module, builder, true variants, false variants, invariance transformations, base variants used for invariance (true, false))
PREDS = {
    "is_hermitian": ("toqito.matrix_props", b_is_hermitian, ["exact", "noise", "int"], ["offdiag", "imag-diag", "nonsquare"], ["conjU", "transpose", "conj", "scale-real", "shift-real"], ("exact", ["offdiag", "imag-diag"])),
    "is_anti_hermitian": ("toqito.matrix_props", b_is_anti_hermitian, ["exact", "noise", "i-times-hermitian"], ["real-diag", "offdiag", "hermitian", "nonsquare"], ["conjU", "transpose", "conj", "scale-real", "shift-imag"], ("exact", ["real-diag"])),
    "is_symmetric": ("toqito.matrix_props", b_is_symmetric, ["exact", "noise"], ["offdiag", "hermitian-not-symmetric", "nonsquare"], ["congT", "transpose", "scale-complex", "shift-complex"], ("exact", ["offdiag"])),
    "is_normal": ("toqito.matrix_props", b_is_normal, ["exact", "noise", "hermitian", "unitary"], ["triangular", "nonsquare"], ["conjU", "scale-complex", "shift-complex", "dagger", "transpose"], ("exact", ["triangular"])),
    "is_unitary": ("toqito.matrix_props", b_is_unitary, ["exact", "noise", "perm"], ["scaled", "column-scaled", "isometry", "singular"], ["mulU", "dagger", "transpose", "conj", "phase", "conjU"], ("exact", ["column-scaled"])),
    "is_pseudo_unitary": ("toqito.matrix_props", b_is_pseudo_unitary, ["exact", "noise"], ["scaled", "wrong-signature", "size-mismatch", "nonsquare"], ["pu-product", "pu-inverse", "phase"], ("exact", ["scaled"])),
    "is_pseudo_hermitian": ("toqito.matrix_props", b_is_pseudo_hermitian, ["exact", "noise", "hermitian-identity-signature"], ["imag-shift", "skew-part", "size-mismatch"], ["ph-add", "ph-similarity", "scale-real"], ("exact", ["imag-shift", "skew-part"])),
    "is_positive_definite": ("toqito.matrix_props", b_is_positive_definite, ["exact", "diag", "int-tridiag"], ["indefinite", "negative-definite", "one-negative-eigenvalue", "non-hermitian"], ["conjU-sym", "transpose", "conj", "scale-pos"], ("exact", ["one-negative-eigenvalue"])),
    "is_positive_semidefinite": ("toqito.matrix_props", b_is_positive_semidefinite, ["fullrank", "rankdef", "zero", "noise"], ["one-negative-eigenvalue", "negative-definite", "non-hermitian", "nonsquare"], ["conjU", "transpose", "conj", "scale-pos"], ("rankdef", ["one-negative-eigenvalue"])),
    "is_projection": ("toqito.matrix_props", b_is_projection, ["rank0", "rank1", "rankhalf", "full", "noise"], ["hermitian-not-idempotent", "negative", "nonsquare"], ["conjU", "transpose", "conj", "complement"], ("rankhalf", ["hermitian-not-idempotent"])),
    "is_idempotent": ("toqito.matrix_props", b_is_idempotent, ["orthogonal", "oblique", "zero", "identity", "noise"], ["scaled", "perturbed", "nonsquare"], ["similarity", "transpose", "dagger", "complement"], ("oblique", ["scaled"])),
    "is_identity": ("toqito.matrix_props", b_is_identity, ["float", "int", "complex", "noise"], ["offdiag", "scaled", "phase", "perm", "diag-entry", "nonsquare"], ["conjU", "transpose"], ("float", ["diag-entry"])),
    "is_diagonal": ("toqito.matrix_props", b_is_diagonal, ["exact", "int", "fortran-order", "strided-view"], ["tiny-offdiag", "nonsquare"], ["perm-conj", "transpose", "scale-complex", "conj"], ("exact", ["tiny-offdiag"])),
    "is_density": ("toqito.matrix_props", b_is_density, ["mixed", "pure", "maxmixed"], ["trace-1.1", "trace-0.9", "negative-eigenvalue", "non-hermitian", "nonsquare"], ["conjU", "transpose", "conj"], ("mixed", ["negative-eigenvalue", "trace-1.1"])),
    "is_permutation": ("toqito.matrix_props", b_is_permutation, ["random", "int"], ["neg-entries", "doubly-stochastic", "duplicate-row", "zero-row", "scaled", "nonsquare"], ["transpose", "perm-conj"], ("random", ["duplicate-row"])),
    "is_circulant": ("toqito.matrix_props", b_is_circulant, ["exact", "int", "noise"], ["entry", "left-circulant", "toeplitz", "nonsquare"], ["transpose", "cyclic-conj", "scale-complex", "shift-complex"], ("exact", ["entry"])),
    "is_positive": ("toqito.matrix_props", b_is_positive, ["random", "rectangular"], ["neg-entry", "zero-entry"], ["transpose", "scale-pos", "perm-conj"], ("random", ["neg-entry"])),
    "is_commuting": ("toqito.matrix_props", b_is_commuting, ["common-eigenbasis", "polynomial", "with-identity", "kron-factors"], ["generic", "perturbed", "pauli-xz"], ["swap-args", "simul-similarity", "scale-both"], ("common-eigenbasis", ["perturbed"])),
    "is_orthonormal": ("toqito.matrix_props", b_is_orthonormal, ["rows-of-unitary", "noise", "list-input"], ["orthogonal-not-normalised", "normalised-not-orthogonal", "list-input-not-orthogonal"], ["rows-unitary", "rows-perm-phase"], ("rows-of-unitary", ["orthogonal-not-normalised", "normalised-not-orthogonal"])),
    "is_linearly_independent": ("toqito.matrix_props", b_is_linearly_independent, ["independent", "column-vectors"], ["combination", "repeated", "too-many", "zero-vector"], ["vl:apply-invertible", "vl:mix-invertible", "vl:scale-each", "vl:permute"], ("independent", ["combination"])),
    "is_totally_positive": ("toqito.matrix_props", b_is_totally_positive, ["exact", "int"], ["neg-entry", "row-swap", "complex-entry"], ["transpose", "pos-diag-scalings", "reverse-both"], ("exact", ["row-swap"])),
    "is_pure": ("toqito.state_props", b_is_pure, ["pure", "basis-state", "list-all-pure"], ["mixed", "maxmixed", "list-one-mixed"], ["states-conjU", "states-permute"], ("pure", ["mixed"])),
    "is_mixed": ("toqito.state_props", b_is_mixed, ["mixed", "maxmixed"], ["pure", "basis-state"], ["states-conjU"], ("mixed", ["pure"])),
    "is_ensemble": ("toqito.state_props", b_is_ensemble, ["weighted-states", "single-state", "with-zero-operator"], ["total-0.9", "total-1.1", "negative-operator", "non-hermitian-operator"], ["states-conjU", "states-permute", "states-split"], ("weighted-states", ["total-0.9", "negative-operator"])),
    "is_mutually_orthogonal": ("toqito.state_props", b_is_mutually_orthogonal, ["orthogonal", "noise"], ["overlap", "repeated"], ["vl:apply-unitary", "vl:scale-each", "vl:permute"], ("orthogonal", ["overlap"])),
    "is_mutually_unbiased_basis": ("toqito.state_props", b_is_mutually_unbiased_basis, ["standard+fourier", "complete-prime", "three-of-complete", "rotated-pair"], ["biased-pair", "one-biased-of-three", "wrong-count", "blocks-not-orthonormal"], ["vl:apply-unitary", "vl:phase-each", "mub-within", "mub-order"], ("standard+fourier", ["biased-pair"])),
}
T.update({
    "swap-args": _t_swap_args, "simul-similarity": _t_simul_similarity, "scale-both": _t_scale_both, "pu-product": _t_pu_product, "pu-inverse": _t_pu_inverse,
    "ph-add": _t_ph_add, "ph-similarity": _t_ph_similarity, "stoch-transpose": _t_stoch_transpose, "stoch-perm": _t_stoch_perm, "rows-unitary": _t_rows_unitary,
    "rows-perm-phase": _t_rows_perm_phase, "states-conjU": _t_states_conjU, "states-permute": _t_states_permute, "states-split": _t_states_split,
    "mub-within": _t_mub_within, "mub-order": _t_mub_order, "upb-local": _t_upb_local, "upb-perm-phase": _t_upb_perm_phase,
})
for _k, _f in T_VL.items():
    T["vl:" + _k] = _f
# predicates with an extra discrete argument (handled by dedicated case generators)
PREDS_X = {
    "is_diagonally_dominant": ("toqito.matrix_props", b_is_diagonally_dominant, ["perm-conj", "conj", "scale-int", "row-scale-int"]),
    "is_stochastic": ("toqito.matrix_props", b_is_stochastic, ["stoch-transpose", "stoch-perm"]),
    "is_nonnegative": ("toqito.matrix_props", b_is_nonnegative, ["perm-conj", "transpose", "scale-pos"]),
    "is_square": ("toqito.matrix_props", b_is_square, []),
    "is_unextendible_product_basis": ("toqito.state_props", b_is_unextendible_product_basis, ["upb-local", "upb-perm-phase"]),
}
_ALL = {}
for _k, _v in PREDS.items():
    _ALL[_k] = (_v[0], _v[1])
for _k, _v in PREDS_X.items():
    _ALL[_k] = (_v[0], _v[1])


def _verdict(pred, args):
    import contextlib
    import importlib
    import io

    fn = getattr(importlib.import_module(_ALL[pred][0]), pred)
    with contextlib.redirect_stdout(io.StringIO()):
        res = fn(*args)
    if pred == "is_unextendible_product_basis":
        return bool(res[0]), res
    return bool(res), res


def _describe(args):
    out = []
    for a in args:
        if isinstance(a, np.ndarray):
            out.append("array%s%s" % (a.shape, np.array2string(a, precision=4, max_line_width=200).replace("\n", "") if a.size <= 16 else ""))
        elif isinstance(a, list) and a and isinstance(a[0], (np.ndarray, list)):
            out.append("list of %d arrays of shape %s" % (len(a), np.asarray(a[0]).shape))
        else:
            out.append(repr(a))
    return ", ".join(out)[:700]


def _build(pred, p, transform=None):
    rng = _rng(p)
    args, exp = _ALL[pred][1](p, rng)
    if transform:
        args = T[transform](args, _rng(p, 77), p)
    return args, exp


def _upb_witness_check(args, res):
    vecs, dims = args
    ok, wit = res
    if ok:
        if wit is not None:
            raise Violation("is_unextendible_product_basis returned (True, witness): a UPB has no witness")
        return
    if wit is None:
        raise Violation("is_unextendible_product_basis returned (False, None): the documented witness is missing")
    w = np.asarray(wit).reshape(-1)
    if w.shape[0] != int(np.prod(dims)) or np.linalg.norm(w) < 1e-6:
        raise Violation("witness has shape %s / norm %.3g" % (np.asarray(wit).shape, float(np.linalg.norm(w))))
    w = w / np.linalg.norm(w)
    ov = max(abs(np.vdot(np.asarray(x).reshape(-1), w)) for x in vecs)
    if ov > TOL:
        raise Violation("witness is not orthogonal to the input vectors (max |<v,w>| = %.3g)" % ov)
    # product: every bipartition i | rest has Schmidt rank one
    t = w.reshape(dims)
    for i in range(len(dims)):
        s = np.linalg.svd(np.moveaxis(t, i, 0).reshape(dims[i], -1), compute_uv=False)
        if len(s) > 1 and s[1] > 1e-7:
            raise Violation("witness is not a product vector (second Schmidt coefficient %.3g across party %d)" % (s[1], i))


def _make_clause(pred, kind):
    def clause(p):
        args, exp = _build(pred, p, p.get("t"))
        if kind == "true" and not exp or kind == "false" and exp:
            raise Undecided("case generator produced a %s case for the %s clause" % (exp, kind))
        got, res = _verdict(pred, args)
        if got != exp:
            what = "satisfies the definition by construction" if exp else "violates the definition by a margin >= 1e-2"
            tr = (" after the property-preserving transformation '%s'" % p["t"]) if p.get("t") else ""
            raise Violation("%s(%s) returned %s on an input that %s%s [variant %s, n=%s, %s]" % (pred, _describe(args), got, what, tr, p.get("v"), p.get("n"), "complex" if p.get("cx") else "real"))
        if pred == "is_unextendible_product_basis":
            _upb_witness_check(args, res)

    clause.function = pred
    clause.__doc__ = "%s returns %s" % (pred, {"true": "True on inputs satisfying its definition", "false": "False on inputs violating its definition by a margin", "invariant": "the same verdict after a property-preserving transformation"}[kind])
    return clause


CLAUSES = {}
for _pred in _ALL:
    for _kind in ("true", "false", "invariant"):
        CLAUSES["%s.%s" % (_pred, _kind)] = _make_clause(_pred, _kind)
