"""Deductive part of C12 (E2): symmetric_extension_hierarchy and ppt_distinguishability write through no reference reachable
from their arguments (`modifies` nothing), in particular not into the caller's list of states."""
import ast
import os


def prove(tier, seed):
    from vt import extract
    from vt.common import REPO
    from vt.frame import Analyzer, Index, frame_obligations

    ix = Index()
    records = []
    targets = [("toqito/state_opt/symmetric_extension_hierarchy.py", "symmetric_extension_hierarchy"), ("toqito/state_opt/ppt_distinguishability.py", "ppt_distinguishability")]
    functions = []
    for rel, name in targets:
        r, S = frame_obligations(ix, rel, name, modifies=(), label="%s modifies none of its arguments" % name)
        for x in r:
            if x["status"] != "discharged":
                if name == "symmetric_extension_hierarchy":
                    x["replay"] = [dict(clause="sym.frame", function=name, input_class="sym/frame-E2-replay/%s" % rep, params=dict(da=2, db=2, n=3, field=field, rep=rep, prior="uniform", kind="pure", rank=1, seed=5, phases=True, level=1, dimform="list")) for rep in ("col", "dm") for field in ("real", "complex")]
                else:
                    x["replay"] = [dict(clause="ppt.frame", function=name, input_class="ppt/frame-E2-replay/%s" % rep, params=dict(da=2, db=2, n=3, field="complex", form="dual", sub=0, solver="cvxopt", rep=rep, prior="uniform", kind="pure", rank=1, seed=5, phases=True)) for rep in ("col", "dm", "1d")]
        records += r
        functions.append(extract.Source(rel).info(name))
    planted = {"tried": 0, "refuted": 0, "survivors": [], "anchors_missing": [], "detail": []}
    muts = [
        ("toqito/state_opt/symmetric_extension_hierarchy.py", "symmetric_extension_hierarchy", "states = [state_ket @ state_ket.conj().T for state_ket in states]", "for i, state_ket in enumerate(states):\n            states[i] = state_ket @ state_ket.conj().T"),
        ("toqito/state_opt/symmetric_extension_hierarchy.py", "symmetric_extension_hierarchy", "    __is_probs_valid(probs)\n", "    __is_probs_valid(probs)\n    probs.reverse()\n"),
    ]
    import copy

    for rel, name, old, new in muts[: (2 if tier == "thorough" else 1)]:
        text = open(os.path.join(REPO, rel)).read()
        if old not in text:
            planted["anchors_missing"].append("%s: %s" % (name, old[:50]))
            continue
        ix2 = copy.copy(ix)
        ix2.modules = dict(ix.modules)
        ix2.funcs = dict(ix.funcs)
        tree = ast.parse(text.replace(old, new, 1))
        ix2.modules[rel] = tree
        for node in tree.body:
            if isinstance(node, ast.FunctionDef):
                ix2.funcs[node.name] = (rel, node)
        r, S = frame_obligations(ix2, rel, name, modifies=())
        bad = [x for x in r if x["status"] != "discharged"]
        planted["tried"] += 1
        if bad:
            planted["refuted"] += 1
            planted["detail"].append({"mutant": "%s: %s" % (name, new[:60]), "not_discharged": len(bad), "first": bad[0]["text"][:120]})
        else:
            planted["survivors"].append("%s: %s" % (name, new[:60]))
    for i, x in enumerate(records):
        x["_id"] = "c12.%d" % i
        x["clean"] = True
    per = {n: sum(1 for x in records if x.get("claim") and x.get("function") == n) for _, n in targets}
    sc = {
        "nonzero_claim_obligations": {"ok": all(v > 0 for v in per.values()), "detail": per},
        "planted_bugs_all_refuted": {"ok": planted["tried"] == planted["refuted"], "detail": planted},
    }
    base = dict(records=records, functions=functions, instances=len(targets), planted=planted, selfchecks=sc)
    # E1-prog: the program ppt_distinguishability hands to the solver is the stated one (primal and dual), dispatch as stated
    import importlib

    from props.sdp_prove import prove_sdp
    from vt.pyvc.termproofs import merge

    mod = importlib.import_module("props.C12")
    gen = getattr(mod, "_cases_before_frames", None) or mod.cases
    replay = []
    seen = {}
    for c in gen("quick", seed):
        k = c.get("clause", "")
        if not k.startswith("ppt.") or k == "ppt.frame" or seen.get(k, 0) >= 6:
            continue
        seen[k] = seen.get(k, 0) + 1
        replay.append(dict(c, function="ppt_distinguishability"))
    out = merge(base, prove_sdp("ppt", replay[:80], "c12p", tier))
    # ... and the cvxpy program of symmetric_extension_hierarchy (density-matrix input, `dim` given as a list; n, local dimensions, level enumerated)
    from props.sdp_prove import prove_seh

    rep2 = []
    seen = {}
    for c in gen("quick", seed):
        k = c.get("clause", "")
        if not k.startswith("sym.") or k in ("sym.frame", "sym.split_sequence") or seen.get(k, 0) >= 5:
            continue
        seen[k] = seen.get(k, 0) + 1
        rep2.append(dict(c, function="symmetric_extension_hierarchy"))
    return merge(out, prove_seh(rep2[:60], "c12s", tier))
