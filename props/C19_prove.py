"""Deductive part of C19 (E2): every generator in toqito/rand draws only from its own default_rng(seed) -- no global numpy
random state anywhere in the function or in the toqito functions it (transitively) calls, the seed is passed on to nested
generators -- and modifies none of its arguments.  Under S-det (numpy's Generator is a deterministic function of its seed)
this is the deductive form of 'same seed => same object regardless of earlier calls or global state'."""
import ast
import os


def prove(tier, seed):
    from vt.pyvc.termproofs import merge

    return merge(prove_rng_frames(tier, seed), prove_measurement_terms(tier, seed))


def prove_measurement_terms(tier, seed):
    """E1-term: pretty_good_measurement, pretty_bad_measurement (three states; callee by parameter name) and the single-operator form of measure are
    their documented formulas over uninterpreted linear algebra"""
    import importlib

    from vt.pyvc.termproofs import prove_terms

    muts = [
        ("pretty_good_measurement", "p_var_sqrt @ (probs[i] * states[i]) @ p_var_sqrt", "p_var_sqrt @ states[i] @ p_var_sqrt"),
        ("pretty_bad_measurement", "1 / (n - 1) * (np.identity(dim) - pbm[i])", "1 / n * (np.identity(dim) - pbm[i])"),
        ("measure", "post_state = result / prob\n        else:\n            post_state = np.zeros_like(state)\n        return (prob", "post_state = result / np.linalg.norm(result)\n        else:\n            post_state = np.zeros_like(state)\n        return (prob"),
    ]
    out = prove_terms(["pretty_good_measurement", "pretty_bad_measurement", "measure"], muts, "thorough", "c19t")
    mod = importlib.import_module("props.C19")
    gen = getattr(mod, "_cases_before_frames", None) or mod.cases
    key = {"pretty_good_measurement": "pgm.", "pretty_bad_measurement": "pbm.", "measure": "measure."}
    cache = {}
    for x in out["records"]:
        if x["status"] != "discharged":
            fn = x["function"]
            if fn not in cache:
                cache[fn] = [dict(c, function=fn) for c in gen("quick", seed) if c["clause"].startswith(key.get(fn, fn))][:40]
            x["replay"] = cache[fn]
    return out


def prove_rng_frames(tier, seed):
    from vt import extract
    from vt.common import REPO
    from vt.frame import Index, frame_obligations, rng_obligations

    ix = Index()
    records = []
    functions = []
    names = []
    rand_dir = os.path.join(REPO, "toqito", "rand")
    for f in sorted(os.listdir(rand_dir)):
        if not f.endswith(".py") or f == "__init__.py":
            continue
        rel = "toqito/rand/" + f
        tree = ix.modules.get(rel)
        if tree is None:
            continue
        for node in tree.body:
            if isinstance(node, ast.FunctionDef) and not node.name.startswith("_"):
                params = [a.arg for a in node.args.args + node.args.kwonlyargs]
                name = node.name
                names.append(name)
                functions.append(extract.Source(rel).info(name))
                if "seed" not in params:
                    records.append(dict(function=name, instance=name, kind="rng-own-seed", text="generator %s takes a `seed` parameter" % name, status="refuted", backend="effect-analysis", claim=True, ms=0.0, model=None))
                    continue
                r = rng_obligations(ix, rel, name)
                fr, S = frame_obligations(ix, rel, name, modifies=(), label="%s modifies none of its arguments" % name)
                for x in r + fr:
                    if x["status"] != "discharged":
                        x["replay"] = [dict(clause="repro.interleaved", function=name, input_class="reproducibility/%s" % name, params=dict(gen=name, seed=1))]
                records += r + fr
    # planted: an unseeded global draw and a fresh unseeded generator must both be refuted
    planted = {"tried": 0, "refuted": 0, "survivors": [], "anchors_missing": [], "detail": []}
    import copy

    for rel, old, new in [
        ("toqito/rand/random_ginibre.py", "gen = np.random.default_rng(seed=seed)", "gen = np.random.default_rng()"),
        ("toqito/rand/random_unitary.py", "gen = np.random.default_rng(seed=seed)", "gen = np.random"),
        ("toqito/rand/random_density_matrix.py", "seed=seed", "seed=None"),
    ][: (3 if tier == "thorough" else 2)]:
        path = os.path.join(REPO, rel)
        text = open(path).read()
        if old not in text:
            planted["anchors_missing"].append("%s: %s" % (rel, old))
            continue
        ix2 = copy.copy(ix)
        ix2.modules = dict(ix.modules)
        ix2.funcs = dict(ix.funcs)
        tree = ast.parse(text.replace(old, new, 1))
        ix2.modules[rel] = tree
        for node in tree.body:
            if isinstance(node, ast.FunctionDef):
                ix2.funcs[node.name] = (rel, node)
        name = os.path.basename(rel)[:-3]
        import vt.frame as _fr

        _fr._rng_cache.clear()
        bad = [x for x in rng_obligations(ix2, rel, name) if x["status"] != "discharged"]
        _fr._rng_cache.clear()
        planted["tried"] += 1
        if bad:
            planted["refuted"] += 1
            planted["detail"].append({"mutant": "%s: %s -> %s" % (rel, old, new), "not_discharged": len(bad), "first": bad[0]["text"][:120]})
        else:
            planted["survivors"].append("%s: %s -> %s" % (rel, old, new))
    for i, x in enumerate(records):
        x["_id"] = "c19.%d" % i
        x["clean"] = True
    per = {n: sum(1 for x in records if x.get("claim") and x.get("function") == n) for n in names}
    sc = {
        "nonzero_claim_obligations": {"ok": bool(per) and all(v > 0 for v in per.values()), "detail": per},
        "planted_bugs_all_refuted": {"ok": planted["tried"] == planted["refuted"], "detail": planted},
    }
    return dict(records=records, functions=functions, instances=len(names), planted=planted, selfchecks=sc)
