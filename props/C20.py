"""C20 -- channel distance measures equal their definitions and known closed forms.

Bounded stand-in only (SDP optima and norms; no deductive content).  Every clause calls the REAL toqito function
(`completely_bounded_trace_norm`, `diamond_distance`, `completely_bounded_spectral_norm`, `channel_fidelity`,
`channel_metrics.fidelity_of_separability`) on Choi matrices built here from Kraus operators (own construction,
J = sum_ij |i><j| (x) Phi(|i><j|), toqito's convention) and checks against an oracle obtained by a different route:
  * closed forms: 2 sqrt(1 - delta^2) / delta for two unitary channels with delta the distance from the origin to the convex
    hull of the eigenvalues of U* V (own hull-distance routine); sum |p - q| and sum sqrt(p q) for Pauli channels;
    ||Phi*(I)||_op for completely positive maps; 1 for channels;
  * bounds that follow from the definition: the Choi-matrix bounds ||J||_1 / d <= . <= ||J||_1, the value on any concrete
    input state (a feasible point of the sup / inf in the definition);
  * metamorphic relations of the statement: symmetry, zero / one on equal channels, unitary invariance, absolute homogeneity,
    cb spectral norm = cb trace norm of the (independently built) dual map.
The diamond distance is the un-halved one (range [0, 2]) as in the statement and in the code.  `channel_fidelity` is the
root channel fidelity of its docstring (inf over inputs of Tr sqrt(sqrt(a) b sqrt(a))), consistent with toqito's `fidelity`.
"""
from __future__ import annotations

import itertools

import numpy as np

ID = "C20"
TITLE = "channel distance measures equal their definitions and known closed forms"
LEVEL = "exploration"
BUDGET = {"quick": 90, "thorough": 900}
ENGINES = ["E4-rtc"]
TECHNIQUE = "run-time-checked contracts on the real functions over a bounded domain (bounded stand-in)"
LEVEL_TEXT = (
    "Bounded exploration only; nothing is proved. The real functions completely_bounded_trace_norm, diamond_distance, completely_bounded_spectral_norm, channel_fidelity and "
    "channel_metrics.fidelity_of_separability are called on Choi matrices of generated qubit and qutrit maps (unitary channels, mixtures of unitaries, Pauli channels, random CPTP maps "
    "from Stinespring isometries, differences of channels, completely positive non-trace-preserving maps, general Hermiticity-preserving maps; a few ququart / d=5 instances for the "
    "'defined for every local dimension' clause) and each value is compared with closed forms, with bounds that follow from the definition, and with the relations of the statement. "
    "SDP values are judged with tolerance 1e-5 (picos/cvxopt) and 2e-3 (cvxpy/SCS); solver breakdowns are undecided samples."
)
RULE = (
    "Deterministic grid over (local dimension 2, 3) x kind of map x clause, with rotation angles / mixing weights on a fixed grid, plus random instances from VERIF_SEED; "
    "SDP-heavy functions (channel_fidelity on qutrits, fidelity_of_separability at level 2) are sampled sparingly in the quick tier. Only solver: cvxopt (the only SDP-capable picos solver installed) "
    "and SCS (hard-wired in channel_fidelity). Non-trivial = the two maps differ (or the clause is about equal maps by design); distinct = distinct (clause, parameters)."
)
EXPLANATION = LEVEL_TEXT
TRUSTED = [
    "numpy.linalg (eigvalsh, svd, eigvals, qr) is correct to ~1e-12 on the matrices of dimension <= 25 used by the oracles",
    "tolerances are part of the contract: 1e-5 absolute (relative to max(1, value)) for cvxopt-backed picos values, 2e-3 for the SCS-backed channel fidelity (SCS reaches ~5e-4 on these programs), 1e-9 for shortcut (non-SDP) paths",
    "closed forms used as ground truth: ||U . U* - V . V*||_diamond = 2 sqrt(1 - delta^2), root channel fidelity of two unitary channels = delta (delta = dist(0, conv spec(U*V))); "
    "for Pauli channels the diamond distance is sum |p_i - q_i| and the root channel fidelity is sum sqrt(p_i q_i) (joint covariance: the maximally entangled input is optimal); "
    "||Phi||_diamond = ||Phi*(I)||_op for completely positive Phi; ||J||_1 / d <= ||Phi||_diamond <= ||J||_1",
    "a solver that breaks down inside cvxopt / SCS or returns None / inf / nan is an undecided sample, never a violation",
    "random channels are sampled from Haar isometries; a bounded sample of the quantifier, not the whole of it",
]
ASSUMPTIONS = TRUSTED

TOL_CVXOPT = 1e-5
TOL_SCS = 2e-3
TOL_EXACT = 1e-9


# =============================================================================================
# executor side
# =============================================================================================
def _herm(a):
    return (a + a.conj().T) / 2


def _ginibre(rng, m, n, cplx=True):
    g = rng.standard_normal((m, n))
    if cplx:
        g = g + 1j * rng.standard_normal((m, n))
    return g


def _haar(rng, d, cplx=True):
    q, r = np.linalg.qr(_ginibre(rng, d, d, cplx))
    return q * (np.diag(r) / np.abs(np.diag(r)))


def _choi(kraus, d, weights=None):
    """J = sum_ij |i><j| (x) sum_k w_k K_k |i><j| K_k^dagger  (input (x) output), built entry by entry"""
    j = np.zeros((d * d, d * d), dtype=complex)
    for n, k in enumerate(kraus):
        w = 1.0 if weights is None else weights[n]
        v = np.zeros(d * d, dtype=complex)  # sum_i |i> (x) K|i>
        for i in range(d):
            v[i * d : (i + 1) * d] = k[:, i]
        j += w * np.outer(v, v.conj())
    return _herm(j)


def _paulis():
    return [np.eye(2, dtype=complex), np.array([[0, 1], [1, 0]], dtype=complex), np.array([[0, -1j], [1j, 0]]), np.array([[1, 0], [0, -1]], dtype=complex)]


def _weyl(d):
    x = np.roll(np.eye(d), 1, axis=0)
    z = np.diag(np.exp(2j * np.pi * np.arange(d) / d))
    return [np.linalg.matrix_power(x, a) @ np.linalg.matrix_power(z, b) for a in range(d) for b in range(d)]


def _prob(rng, n, zeros=0):
    p = rng.random(n) + 0.05
    for i in range(zeros):
        p[(i * 2 + 1) % n] = 0.0
    return p / p.sum()


def _kraus(kind, d, rng):
    """Kraus operators (list) of a channel of the named kind"""
    if kind == "unitary":
        return [_haar(rng, d)]
    if kind == "real-unitary":
        return [_haar(rng, d, False).astype(complex)]
    if kind == "identity":
        return [np.eye(d, dtype=complex)]
    if kind == "mixed-unitary":
        n = int(rng.integers(2, 4))
        p = _prob(rng, n)
        return [np.sqrt(p[i]) * _haar(rng, d) for i in range(n)]
    if kind == "pauli":
        ops = _paulis() if d == 2 else _weyl(d)
        p = _prob(rng, len(ops), zeros=int(rng.integers(0, 2)))
        return [np.sqrt(p[i]) * ops[i] for i in range(len(ops))]
    if kind == "cptp":
        nk = int(rng.integers(2, d * d + 1))
        v = _haar(rng, d * nk)[:, :d]
        return [v[k * d : (k + 1) * d, :] for k in range(nk)]
    if kind == "cptp-rank2":
        v = _haar(rng, d * 2)[:, :d]
        return [v[k * d : (k + 1) * d, :] for k in range(2)]
    if kind == "replacer":  # X -> tr(X) sigma : non-unital, Kraus sqrt(s_a)|a><i|
        s = _prob(rng, d)
        u = _haar(rng, d)
        return [np.sqrt(s[a]) * np.outer(u[:, a], np.eye(d)[i]) for a in range(d) for i in range(d)]
    if kind == "amplitude-damping":
        g = float(rng.uniform(0.1, 0.9))
        k0 = np.eye(d, dtype=complex)
        k0[d - 1, d - 1] = np.sqrt(1 - g)
        k1 = np.zeros((d, d), dtype=complex)
        k1[0, d - 1] = np.sqrt(g)
        return [k0, k1]
    raise ValueError(kind)


def _channel(p, which):
    d = p["d"]
    rng = np.random.default_rng([p.get("seed", 0), d, which, 23])
    kr = _kraus(p["kinds"][which] if "kinds" in p else p["kind"], d, rng)
    j = _choi(kr, d)
    if p.get("scale") is not None:  # the same (possibly negative) multiple of both maps: general linear maps, no longer channels
        j = float(p["scale"]) * j
    if p.get("real_first") and which == 0 and np.abs(j.imag).max() < 1e-15:  # a real Choi matrix held in a real-dtype array
        j = np.ascontiguousarray(j.real)
    return kr, j


def _map(p):
    """Choi matrix of a linear map of the named kind, plus what is known about it by construction"""
    d, kind = p["d"], p["kind"]
    rng = np.random.default_rng([p.get("seed", 0), d, 31])
    if kind == "cp":  # completely positive, not trace preserving
        nk = int(rng.integers(1, d + 2))
        kr = [_ginibre(rng, d, d) * 0.7 for _ in range(nk)]
        return _choi(kr, d), dict(kraus=kr)
    if kind == "cp-real":
        nk = int(rng.integers(1, d + 2))
        kr = [_ginibre(rng, d, d, False).astype(complex) * 0.7 for _ in range(nk)]
        return _choi(kr, d), dict(kraus=kr)
    if kind == "cp-scaled-channel":  # c * channel, c > 0, c != 1
        kr = _kraus("cptp", d, rng)
        c = float(rng.uniform(0.3, 3.0))
        if abs(c - 1) < 0.1:
            c += 0.3
        kr = [np.sqrt(c) * k for k in kr]
        return _choi(kr, d), dict(kraus=kr)
    if kind == "cp-trace-map":  # X -> tr(X) I, Choi matrix = identity (the example pinned by the repository's test)
        kr = [np.outer(np.eye(d)[a], np.eye(d)[i]).astype(complex) for a in range(d) for i in range(d)]
        return _choi(kr, d), dict(kraus=kr)
    if kind == "channel-difference":
        k1, k2 = _kraus(p.get("k1", "cptp"), d, rng), _kraus(p.get("k2", "cptp"), d, rng)
        return _herm(_choi(k1, d) - _choi(k2, d)), {}
    if kind == "hermitian-preserving":  # general Hermitian Choi matrix (indefinite)
        g = _ginibre(rng, d * d, d * d)
        return _herm(g) / d, {}
    if kind == "hermitian-preserving-real":
        g = _ginibre(rng, d * d, d * d, False)
        return _herm(g).astype(complex) / d, {}
    if kind in ("unitary", "mixed-unitary", "pauli", "cptp", "replacer", "amplitude-damping", "identity"):
        kr = _kraus(kind, d, rng)
        return _choi(kr, d), dict(kraus=kr, channel=True)
    if kind == "tp-transpose":  # the transpose map: trace preserving, positive, not completely positive; cb trace norm d
        j = np.zeros((d * d, d * d), dtype=complex)
        for a in range(d):
            for b in range(d):
                j[a * d + b, b * d + a] = 1.0  # J = sum_ab E_ab (x) E_ba
        return j, dict(tp=True, value=float(d))
    if kind == "tp-not-cp":  # t * channel_1 + (1 - t) * channel_2 with t > 1: trace preserving, Hermiticity preserving, not CP
        k1, k2 = _kraus("unitary", d, rng), _kraus("replacer", d, rng)
        t = 1.0 + float(rng.uniform(0.5, 1.5))
        return _herm(t * _choi(k1, d) + (1 - t) * _choi(k2, d)), dict(tp=True)
    raise ValueError(kind)


def _tn(x):
    return float(np.sum(np.linalg.svd(x, compute_uv=False)))


def _opnorm(x):
    return float(np.linalg.svd(x, compute_uv=False)[0])


def hull_distance(points):
    """Euclidean distance from the origin to the convex hull of a finite set of complex numbers (brute force).

    0 lies in the hull iff the points are not contained in an open half-plane through 0, i.e. iff the largest gap between
    consecutive arguments is <= pi; otherwise the nearest point of the hull lies on a segment joining two of the points."""
    z = np.asarray(points, dtype=complex).ravel()
    if np.min(np.abs(z)) < 1e-14:
        return 0.0
    ang = np.sort(np.angle(z))
    gaps = np.diff(np.concatenate([ang, [ang[0] + 2 * np.pi]]))
    if np.max(gaps) <= np.pi:
        return 0.0
    best = float(np.min(np.abs(z)))
    for a, b in itertools.combinations(z, 2):
        dv = b - a
        if abs(dv) < 1e-15:
            continue
        t = -(a * np.conj(dv)).real / abs(dv) ** 2
        t = min(1.0, max(0.0, t))
        best = min(best, float(abs(a + t * dv)))
    return best


def _unitary_pair(p):
    """(U, V, delta): V = U W diag(e^{i phases}) W* so that spec(U* V) is prescribed; delta from the hull routine applied to the
    numerically computed eigenvalues of U* V (not to the prescribed phases)"""
    d = p["d"]
    rng = np.random.default_rng([p.get("seed", 0), d, 41])
    u = _haar(rng, d) if not p.get("u_identity") else np.eye(d, dtype=complex)
    if p.get("phases") is not None:
        ph = np.asarray(p["phases"], dtype=float)
        w = _haar(rng, d) if not p.get("diagonal") else np.eye(d, dtype=complex)
        v = u @ w @ np.diag(np.exp(1j * ph)) @ w.conj().T
    else:
        v = _haar(rng, d)
    ev = np.linalg.eigvals(u.conj().T @ v)
    return u, v, hull_distance(ev)


def _finite(v, what):
    from vt.contract import Undecided

    if v is None or not np.isfinite(np.real(v)):
        raise Undecided("%s: solver returned %r" % (what, v))
    return float(np.real(v))


def _apply_ext(j, rho, d, dz):
    """(Phi (x) id_Z)(rho) for rho on X (x) Z, Phi given by its Choi matrix: block (i,j) of J is Phi(|i><j|)"""
    out = np.zeros((d * dz, d * dz), dtype=complex)
    r4 = rho.reshape(d, dz, d, dz)
    for i in range(d):
        for k in range(d):
            out += np.kron(j[i * d : (i + 1) * d, k * d : (k + 1) * d], r4[i, :, k, :])
    return out


def _inputs(d, rng, n):
    """a few concrete input states on X (x) Z (Z = X): maximally entangled, random pure entangled, random pure product"""
    out = []
    me = np.eye(d).reshape(d * d) / np.sqrt(d)
    out.append(np.outer(me, me.conj()))
    for i in range(n):
        v = _ginibre(rng, d * d, 1)[:, 0]
        v /= np.linalg.norm(v)
        out.append(np.outer(v, v.conj()))
    x, y = _ginibre(rng, d, 1)[:, 0], _ginibre(rng, d, 1)[:, 0]
    v = np.kron(x / np.linalg.norm(x), y / np.linalg.norm(y))
    out.append(np.outer(v, v.conj()))
    return out


def _psd_sqrt(a):
    w, v = np.linalg.eigh(_herm(a))
    return (v * np.sqrt(np.clip(w, 0, None))) @ v.conj().T


def _root_fidelity(a, b):
    return float(np.sum(np.linalg.svd(_psd_sqrt(a) @ _psd_sqrt(b), compute_uv=False)))


# ----------------------------------------------------------------------------------------- diamond distance
def _dd(j1, j2):
    from toqito.channel_metrics import diamond_distance

    return _finite(diamond_distance(j1, j2), "diamond_distance")


def dd_symmetric(p):
    """diamond_distance(Phi, Psi) = diamond_distance(Psi, Phi)"""
    from vt.contract import Violation

    (_, j1), (_, j2) = _channel(p, 0), _channel(p, 1)
    a, b = _dd(j1, j2), _dd(j2, j1)
    if not abs(a - b) <= 2 * TOL_CVXOPT:
        raise Violation("diamond_distance(J1, J2) = %.8f but diamond_distance(J2, J1) = %.8f (d=%d, %s)" % (a, b, p["d"], p["kinds"]))


def dd_equal_zero(p):
    """diamond_distance(Phi, Phi) = 0"""
    from vt.contract import Violation

    _, j1 = _channel(p, 0)
    a = _dd(j1, j1.copy())
    if not abs(a) <= TOL_CVXOPT:
        raise Violation("diamond_distance of a channel with itself = %.8g (d=%d, %s)" % (a, p["d"], p["kinds"]))


def dd_le_2(p):
    """diamond_distance <= 2 for channels (and >= 0)"""
    from vt.contract import Violation

    (_, j1), (_, j2) = _channel(p, 0), _channel(p, 1)
    a = _dd(j1, j2)
    if not -TOL_CVXOPT <= a <= 2 + TOL_CVXOPT:
        raise Violation("diamond_distance of two channels = %.8f outside [0, 2] (d=%d, %s)" % (a, p["d"], p["kinds"]))


def dd_ge_choi(p):
    """diamond_distance >= || J1 - J2 ||_1 / d"""
    from vt.contract import Violation

    (_, j1), (_, j2) = _channel(p, 0), _channel(p, 1)
    a, lo = _dd(j1, j2), _tn(j1 - j2) / p["d"]
    if not a >= lo - TOL_CVXOPT:
        raise Violation("diamond_distance = %.8f < trace norm of the normalised Choi difference %.8f (d=%d, %s)" % (a, lo, p["d"], p["kinds"]))


def dd_le_choi(p):
    """diamond_distance <= || J1 - J2 ||_1"""
    from vt.contract import Violation

    (_, j1), (_, j2) = _channel(p, 0), _channel(p, 1)
    a, hi = _dd(j1, j2), _tn(j1 - j2)
    if not a <= hi + TOL_CVXOPT:
        raise Violation("diamond_distance = %.8f > trace norm of the Choi difference %.8f (d=%d, %s)" % (a, hi, p["d"], p["kinds"]))


def dd_ge_inputs(p):
    """diamond_distance >= || ((Phi - Psi) (x) id)(rho) ||_1 for concrete input states rho (feasible points of the definition)"""
    from vt.contract import Violation

    d = p["d"]
    (_, j1), (_, j2) = _channel(p, 0), _channel(p, 1)
    a = _dd(j1, j2)
    rng = np.random.default_rng([p.get("seed", 0), d, 53])
    for n, rho in enumerate(_inputs(d, rng, 8)[1:]):
        lo = _tn(_apply_ext(j1 - j2, rho, d, d))
        if not a >= lo - TOL_CVXOPT:
            raise Violation("diamond_distance = %.8f < ||((Phi-Psi) x id)(rho)||_1 = %.8f on input state #%d (d=%d, %s)" % (a, lo, n, d, p["kinds"]))


def dd_unitary_ge(p):
    """two unitary channels: diamond_distance >= 2 sqrt(1 - delta^2)"""
    from vt.contract import Violation

    d = p["d"]
    u, v, delta = _unitary_pair(p)
    a = _dd(_choi([u], d), _choi([v], d))
    exp = 2 * np.sqrt(max(1 - delta * delta, 0.0))
    if not a >= exp - _utol(delta):
        raise Violation("unitary channels: diamond_distance = %.8f < 2 sqrt(1 - delta^2) = %.8f (delta = %.8f, d=%d, phases %s)" % (a, exp, delta, d, p.get("phases")))


def dd_unitary_le(p):
    """two unitary channels: diamond_distance <= 2 sqrt(1 - delta^2)"""
    from vt.contract import Violation

    d = p["d"]
    u, v, delta = _unitary_pair(p)
    a = _dd(_choi([u], d), _choi([v], d))
    exp = 2 * np.sqrt(max(1 - delta * delta, 0.0))
    if not a <= exp + _utol(delta):
        raise Violation("unitary channels: diamond_distance = %.8f > 2 sqrt(1 - delta^2) = %.8f (delta = %.8f, d=%d, phases %s)" % (a, exp, delta, d, p.get("phases")))


def _utol(delta):
    # near delta = 1 the closed form 2 sqrt(1 - delta^2) turns the ~1e-15 error of the computed eigenvalues into ~1e-7
    return TOL_CVXOPT + 1e-6


def dd_unitary_invariant(p):
    """diamond_distance is unchanged when both channels are composed (before and after) with the same unitary channels"""
    from vt.contract import Violation

    d = p["d"]
    (_, j1), (_, j2) = _channel(p, 0), _channel(p, 1)
    rng = np.random.default_rng([p.get("seed", 0), d, 67])
    pre = _haar(rng, d) if p.get("pre", True) else np.eye(d)
    post = _haar(rng, d) if p.get("post", True) else np.eye(d)
    # J(post o Phi o pre) = (pre^T (x) post) J (pre^T (x) post)^dagger
    m = np.kron(pre.T, post)
    a, b = _dd(j1, j2), _dd(_herm(m @ j1 @ m.conj().T), _herm(m @ j2 @ m.conj().T))
    if not abs(a - b) <= 2 * TOL_CVXOPT:
        raise Violation("diamond_distance = %.8f, after composing both channels with the same unitaries (pre=%s, post=%s) = %.8f (d=%d, %s)" % (a, p.get("pre", True), p.get("post", True), b, d, p["kinds"]))


def dd_pauli(p):
    """Pauli (Weyl-covariant) channels with weights p, q: diamond_distance = sum |p_i - q_i|"""
    from vt.contract import Violation

    d = p["d"]
    rng = np.random.default_rng([p.get("seed", 0), d, 71])
    ops = _paulis() if d == 2 else _weyl(d)
    pp, qq = _prob(rng, len(ops), zeros=p.get("zeros", 0)), _prob(rng, len(ops))
    a = _dd(_choi(ops, d, pp), _choi(ops, d, qq))
    exp = float(np.sum(np.abs(pp - qq)))
    if not abs(a - exp) <= TOL_CVXOPT:
        raise Violation("Pauli channels: diamond_distance = %.8f, sum |p - q| = %.8f (d=%d)" % (a, exp, d))


# ----------------------------------------------------------------------------------------- cb trace norm
def _cbtn(j, **kw):
    from toqito.channel_metrics import completely_bounded_trace_norm

    return _finite(completely_bounded_trace_norm(j, **kw), "completely_bounded_trace_norm")


def cbtn_channel_one(p):
    """completely_bounded_trace_norm(channel) = 1"""
    from vt.contract import Violation

    j, _ = _map(p)
    a = _cbtn(j)
    if not abs(a - 1) <= TOL_CVXOPT:
        raise Violation("cb trace norm of a %s channel = %.8f, not 1 (d=%d)" % (p["kind"], a, p["d"]))


def _axb_choi(p):
    d = p["d"]
    rng = np.random.default_rng([p.get("seed", 0), d, 97])
    real = p.get("field") == "real"
    A = rng.standard_normal((d, d)) + (0 if real else 1j * rng.standard_normal((d, d)))
    B = rng.standard_normal((d, d)) + (0 if real else 1j * rng.standard_normal((d, d)))
    J = np.zeros((d * d, d * d), dtype=float if real else complex)
    for i in range(d):
        for j in range(d):
            E = np.zeros((d, d))
            E[i, j] = 1
            J = J + np.kron(E, A @ E @ B.conj().T)
    return J, A, B


def cbtn_rank_one_map(p):
    """X -> A X B^dagger (not Hermiticity preserving for A != B): cb trace norm = ||A||_op ||B||_op"""
    from vt.contract import Violation

    J, A, B = _axb_choi(p)
    exp = _opnorm(A) * _opnorm(B)
    a = _cbtn(J)
    if not abs(a - exp) <= TOL_CVXOPT * max(1, exp):
        raise Violation("X -> A X B^dagger (d=%d, %s): cb trace norm = %.8f, ||A|| ||B|| = %.8f" % (p["d"], p.get("field", "complex"), a, exp))


def cbsn_rank_one_map(p):
    """X -> A X B^dagger: cb spectral norm = ||A||_op ||B||_op as well"""
    from toqito.channel_metrics import completely_bounded_spectral_norm
    from vt.contract import Violation

    J, A, B = _axb_choi(p)
    exp = _opnorm(A) * _opnorm(B)
    a = _finite(completely_bounded_spectral_norm(J), "completely_bounded_spectral_norm")
    if not abs(a - exp) <= TOL_CVXOPT * max(1, exp):
        raise Violation("X -> A X B^dagger (d=%d, %s): cb spectral norm = %.8f, ||A|| ||B|| = %.8f" % (p["d"], p.get("field", "complex"), a, exp))


def _dual_of_identity(info):
    return _herm(sum(k.conj().T @ k for k in info["kraus"]))


def cbtn_cp_ge(p):
    """completely positive map: cb trace norm >= || Phi*(I) ||_op"""
    from vt.contract import Violation

    j, info = _map(p)
    a, exp = _cbtn(j), _opnorm(_dual_of_identity(info))
    if not a >= exp - TOL_CVXOPT * max(1, exp):
        raise Violation("CP map (%s, d=%d): cb trace norm = %.8f < ||Phi*(I)||_op = %.8f" % (p["kind"], p["d"], a, exp))


def cbtn_cp_le(p):
    """completely positive map: cb trace norm <= || Phi*(I) ||_op"""
    from vt.contract import Violation

    j, info = _map(p)
    a, exp = _cbtn(j), _opnorm(_dual_of_identity(info))
    if not a <= exp + TOL_CVXOPT * max(1, exp):
        raise Violation("CP map (%s, d=%d): cb trace norm = %.8f > ||Phi*(I)||_op = %.8f (trace norm of Phi*(I) is %.8f)" % (p["kind"], p["d"], a, exp, _tn(_dual_of_identity(info))))


def cbtn_homogeneous(p):
    """cb trace norm of c * Phi = |c| * cb trace norm of Phi"""
    from vt.contract import Violation

    j, _ = _map(p)
    c = complex(*p["c"])
    base = _cbtn(j)
    cj = c * j if abs(c.imag) > 0 else c.real * j
    a = _cbtn(cj)
    exp = abs(c) * base
    if not abs(a - exp) <= 2 * TOL_CVXOPT * max(1, exp):
        raise Violation("cb trace norm of c*Phi = %.8f, |c| * (cb trace norm of Phi) = %.4f * %.8f = %.8f (c=%s, %s map, d=%d)" % (a, abs(c), base, exp, c, p["kind"], p["d"]))


def cbtn_ge_choi(p):
    """cb trace norm >= ||J||_1 / d"""
    from vt.contract import Violation

    d = p["d"]
    j, _ = _map(p)
    a, lo = _cbtn(j), _tn(j) / d
    if not a >= lo - TOL_CVXOPT * max(1, lo):
        raise Violation("cb trace norm = %.8f < ||J||_1 / d = %.8f (%s map, d=%d)" % (a, lo, p["kind"], d))


def cbtn_ge_inputs(p):
    """cb trace norm >= || (Phi (x) id)(rho) ||_1 on concrete input states rho (feasible points of the sup in the definition)"""
    from vt.contract import Violation

    d = p["d"]
    j, _ = _map(p)
    a = _cbtn(j)
    rng = np.random.default_rng([p.get("seed", 0), d, 59])
    for n, rho in enumerate(_inputs(d, rng, 8)[1:]):
        lo = _tn(_apply_ext(j, rho, d, d))
        if not a >= lo - TOL_CVXOPT * max(1, lo):
            raise Violation("cb trace norm = %.8f < ||(Phi x id)(rho)||_1 = %.8f on input state #%d (%s map, d=%d)" % (a, lo, n + 1, p["kind"], d))


def cbtn_le_choi(p):
    """cb trace norm <= ||J||_1"""
    from vt.contract import Violation

    j, _ = _map(p)
    a, hi = _cbtn(j), _tn(j)
    if not a <= hi + TOL_CVXOPT * max(1, hi):
        raise Violation("cb trace norm = %.8f > ||J||_1 = %.8f (%s map, d=%d)" % (a, hi, p["kind"], p["d"]))


def cbtn_solver(p):
    """every supported solver gives the same value (named explicitly vs default)"""
    from vt.contract import Violation

    j, _ = _map(p)
    a, b = _cbtn(j), _cbtn(j, solver=p["solver"])
    if not abs(a - b) <= 2 * TOL_CVXOPT * max(1, abs(a)):
        raise Violation("cb trace norm: default solver %.8f, solver=%s %.8f" % (a, p["solver"], b))


# ----------------------------------------------------------------------------------------- cb spectral norm
def _cbsn(j):
    from toqito.channel_metrics import completely_bounded_spectral_norm

    return _finite(completely_bounded_spectral_norm(j), "completely_bounded_spectral_norm")


def _dual_choi(j, info, d):
    """Choi matrix of the dual map, built independently: Kraus operators K^dagger when Kraus operators are known; otherwise from
    <a| Phi*(|k><l|) |b> = conj(<k| Phi(|a><b|) |l>)"""
    if "kraus" in info:
        return _choi([k.conj().T for k in info["kraus"]], d)
    out = np.zeros_like(j)
    for k in range(d):
        for l in range(d):
            for a in range(d):
                for b in range(d):
                    out[k * d + a, l * d + b] = np.conj(j[a * d + k, b * d + l])
    return out


def cbsn_dual(p):
    """cb spectral norm of Phi = cb trace norm of the dual map (dual built independently of toqito's dual_channel)"""
    from vt.contract import Violation

    d = p["d"]
    j, info = _map(p)
    a = _cbsn(j)
    b = _cbtn(_dual_choi(j, info, d))
    if not abs(a - b) <= 2 * TOL_CVXOPT * max(1, abs(b)):
        raise Violation("cb spectral norm = %.8f, cb trace norm of the dual map = %.8f (%s map, d=%d)" % (a, b, p["kind"], d))


def cbsn_cp_ge(p):
    """completely positive map (incl. channels): cb spectral norm >= || Phi(I) ||_op"""
    from vt.contract import Violation

    j, info = _map(p)
    a = _cbsn(j)
    exp = _opnorm(_herm(sum(k @ k.conj().T for k in info["kraus"])))
    if not a >= exp - TOL_CVXOPT * max(1, exp):
        raise Violation("CP map (%s, d=%d): cb spectral norm = %.8f < ||Phi(I)||_op = %.8f" % (p["kind"], p["d"], a, exp))


def cbsn_cp_le(p):
    """completely positive map (incl. channels): cb spectral norm <= || Phi(I) ||_op"""
    from vt.contract import Violation

    j, info = _map(p)
    a = _cbsn(j)
    exp = _opnorm(_herm(sum(k @ k.conj().T for k in info["kraus"])))
    if not a <= exp + TOL_CVXOPT * max(1, exp):
        raise Violation("CP map (%s, d=%d): cb spectral norm = %.8f > ||Phi(I)||_op = %.8f" % (p["kind"], p["d"], a, exp))


# ----------------------------------------------------------------------------------------- channel fidelity
def _cf(j1, j2):
    from toqito.channel_metrics import channel_fidelity

    return _finite(channel_fidelity(j1, j2), "channel_fidelity")


def cf_symmetric(p):
    """channel_fidelity(Phi, Psi) = channel_fidelity(Psi, Phi)"""
    from vt.contract import Violation

    (_, j1), (_, j2) = _channel(p, 0), _channel(p, 1)
    a, b = _cf(j1, j2), _cf(j2, j1)
    if not abs(a - b) <= 2 * TOL_SCS:
        raise Violation("channel_fidelity(J1, J2) = %.6f but channel_fidelity(J2, J1) = %.6f (d=%d, %s)" % (a, b, p["d"], p["kinds"]))


def cf_equal_one(p):
    """channel_fidelity(Phi, Phi) = 1"""
    from vt.contract import Violation

    _, j1 = _channel(p, 0)
    a = _cf(j1, j1.copy())
    if not abs(a - 1) <= TOL_SCS:
        raise Violation("channel_fidelity of a channel with itself = %.6f (d=%d, %s)" % (a, p["d"], p["kinds"]))


def cf_le_choi(p):
    """channel_fidelity <= root fidelity of the normalised Choi states"""
    from vt.contract import Violation

    d = p["d"]
    (_, j1), (_, j2) = _channel(p, 0), _channel(p, 1)
    a = _cf(j1, j2)
    hi = _root_fidelity(j1 / d, j2 / d)
    if not a <= hi + _cf_tol(hi):
        raise Violation("channel_fidelity = %.6f > fidelity of the normalised Choi states %.6f (d=%d, %s)" % (a, hi, d, p["kinds"]))


def cf_le_inputs(p):
    """channel_fidelity <= root fidelity of the two outputs on concrete input states (feasible points of the inf in the definition)"""
    from vt.contract import Violation

    d = p["d"]
    (_, j1), (_, j2) = _channel(p, 0), _channel(p, 1)
    a = _cf(j1, j2)
    rng = np.random.default_rng([p.get("seed", 0), d, 61])
    for n, rho in enumerate(_inputs(d, rng, 8)[1:]):
        hi = _root_fidelity(_apply_ext(j1, rho, d, d), _apply_ext(j2, rho, d, d))
        if not a <= hi + _cf_tol(hi):
            raise Violation("channel_fidelity = %.6f > fidelity %.6f of the two outputs on input state #%d (d=%d, %s)" % (a, hi, n + 1, d, p["kinds"]))


def _first(j, p):
    """the first Choi matrix as a real-dtype array when it is real and the case asks for it (mixed dtypes in one call)"""
    return np.ascontiguousarray(j.real) if (p.get("real_first") and np.abs(j.imag).max() < 1e-15) else j


def _cf_tol(expected):
    """SCS tolerance for the root channel fidelity; near the value 0 the fidelity SDP turns a feasibility error e of the solver
    (eps = 1e-7) into sqrt(e) in the optimum (observed 1e-3 on orthogonal unitary channels, also with the operator-inequality form)"""
    return TOL_SCS if expected > 0.05 else 5e-3


def cf_unitary_ge(p):
    """two unitary channels: root channel fidelity >= delta = dist(0, conv spec(U* V))"""
    from vt.contract import Violation

    d = p["d"]
    u, v, delta = _unitary_pair(p)
    a = _cf(_first(_choi([u], d), p), _choi([v], d))
    if not a >= delta - _cf_tol(delta):
        raise Violation("unitary channels: channel_fidelity = %.6f < delta = %.6f = inf over inputs of the output fidelity (d=%d, phases %s, diagonal=%s)" % (a, delta, d, p.get("phases"), bool(p.get("diagonal"))))


def cf_unitary_le(p):
    """two unitary channels: root channel fidelity <= delta"""
    from vt.contract import Violation

    d = p["d"]
    u, v, delta = _unitary_pair(p)
    a = _cf(_first(_choi([u], d), p), _choi([v], d))
    if not a <= delta + _cf_tol(delta):
        raise Violation("unitary channels: channel_fidelity = %.6f > delta = %.6f (d=%d, phases %s)" % (a, delta, d, p.get("phases")))


def cf_pauli_ge(p):
    """Pauli (Weyl-covariant) channels with weights p, q: root channel fidelity >= sum sqrt(p_i q_i)  (<= is the Choi-state clause)"""
    from vt.contract import Violation

    d = p["d"]
    rng = np.random.default_rng([p.get("seed", 0), d, 73])
    ops = _paulis() if d == 2 else _weyl(d)
    pp, qq = _prob(rng, len(ops), zeros=p.get("zeros", 0)), _prob(rng, len(ops))
    a = _cf(_choi(ops, d, pp), _choi(ops, d, qq))
    exp = float(np.sum(np.sqrt(pp * qq)))
    if not a >= exp - TOL_SCS:
        raise Violation("Pauli channels: channel_fidelity = %.6f < sum sqrt(p q) = %.6f (d=%d)" % (a, exp, d))


def cf_defined(p):
    """channel_fidelity is defined (returns a number in [0, 1]) for every local dimension; on the pair used here the value is known"""
    from vt.contract import Violation

    d, pair = p["d"], p["pair"]
    if pair == "equal-identity":
        j1 = j2 = _choi([np.eye(d)], d)
        exp = 1.0
    elif pair == "identity-vs-phase":  # U = I, V = diag(1, .., e^{i theta}): delta = cos(theta/2)
        th = p.get("theta", 1.0)
        v = np.eye(d, dtype=complex)
        v[d - 1, d - 1] = np.exp(1j * th)
        j1, j2 = _choi([np.eye(d)], d), _choi([v], d)
        exp = float(np.cos(th / 2))
    elif pair == "dephasing-vs-depolarizing":  # the pair of the repository's test, any d: value sqrt(1/d)... computed from Choi states (jointly Weyl-covariant)
        deph = [np.outer(np.eye(d)[i], np.eye(d)[i]).astype(complex) for i in range(d)]
        j1 = _choi(deph, d)
        j2 = np.eye(d * d, dtype=complex) / d
        exp = _root_fidelity(j1 / d, j2 / d)
    else:
        raise ValueError(pair)
    a = _cf(j1, j2)
    if not (-TOL_SCS <= a <= 1 + TOL_SCS):
        raise Violation("channel_fidelity = %.6f outside [0, 1] (d=%d, %s)" % (a, d, pair))
    if not abs(a - exp) <= 2 * TOL_SCS:
        raise Violation("channel_fidelity = %.6f, known value %.6f (d=%d, %s)" % (a, exp, d, pair))


# ----------------------------------------------------------------------------------------- channel fidelity of separability
def cfos_product(p):
    """channel_metrics.fidelity_of_separability(pure tripartite product state, [dB, dA, dR], k) = 1"""
    from toqito.channel_metrics import fidelity_of_separability
    from vt.contract import Violation

    dims, k, cplx = list(p["dims"]), p["k"], p.get("field", "complex") == "complex"
    rng = np.random.default_rng([p.get("seed", 0)] + dims + [k])
    v = np.ones(1)
    if p.get("basis"):
        for d in dims:
            v = np.kron(v, np.eye(d)[p.get("index", 0) % d])
    else:
        for d in dims:
            x = _ginibre(rng, d, 1, cplx)[:, 0]
            v = np.kron(v, x / np.linalg.norm(x))
    rho = _herm(np.outer(v, v.conj()))
    val = _finite(fidelity_of_separability(rho, dims, k=k), "fidelity_of_separability")
    if not abs(val - 1) <= TOL_CVXOPT:
        raise Violation("channel fidelity of separability of a pure product state on %s at level k=%d is %.8f, not 1" % (dims, k, val))
    return {"value": val}


CLAUSES = {
    "dd.symmetric": dd_symmetric,
    "dd.equal_zero": dd_equal_zero,
    "dd.le_2": dd_le_2,
    "dd.ge_choi_normalised": dd_ge_choi,
    "dd.le_choi_unnormalised": dd_le_choi,
    "dd.ge_concrete_inputs": dd_ge_inputs,
    "dd.unitary_pair_ge": dd_unitary_ge,
    "dd.unitary_pair_le": dd_unitary_le,
    "dd.unitary_invariant": dd_unitary_invariant,
    "dd.pauli_closed_form": dd_pauli,
    "cbtn.channel_is_1": cbtn_channel_one,
    "cbtn.rank_one_map": cbtn_rank_one_map,
    "cbsn.rank_one_map": cbsn_rank_one_map,
    "cbtn.cp_ge_opnorm": cbtn_cp_ge,
    "cbtn.cp_le_opnorm": cbtn_cp_le,
    "cbtn.homogeneous": cbtn_homogeneous,
    "cbtn.ge_choi_normalised": cbtn_ge_choi,
    "cbtn.ge_concrete_inputs": cbtn_ge_inputs,
    "cbtn.le_choi_unnormalised": cbtn_le_choi,
    "cbtn.solver": cbtn_solver,
    "cbsn.eq_cbtn_of_dual": cbsn_dual,
    "cbsn.cp_ge_opnorm": cbsn_cp_ge,
    "cbsn.cp_le_opnorm": cbsn_cp_le,
    "cf.symmetric": cf_symmetric,
    "cf.equal_one": cf_equal_one,
    "cf.le_choi_fidelity": cf_le_choi,
    "cf.le_concrete_inputs": cf_le_inputs,
    "cf.unitary_pair_ge": cf_unitary_ge,
    "cf.unitary_pair_le": cf_unitary_le,
    "cf.pauli_ge": cf_pauli_ge,
    "cf.defined": cf_defined,
    "cfos.product_is_1": cfos_product,
}
_FN = {"dd": "diamond_distance", "cbtn": "completely_bounded_trace_norm", "cbsn": "completely_bounded_spectral_norm", "cf": "channel_fidelity", "cfos": "channel_metrics.fidelity_of_separability"}
for _k, _f in CLAUSES.items():
    _f.function = _FN[_k.split(".")[0]]
    _f.limit = 100 if _k.startswith("cf.") else (30 if _k.startswith("cfos") else 60)


def cases(tier, seed):
    thorough = tier == "thorough"
    out = []

    def add(clause, params, ic, nontrivial=True, **kw):
        out.append(dict(clause=clause, params=params, input_class=ic, nontrivial=nontrivial, **kw))

    pairs = [("unitary", "unitary"), ("unitary", "mixed-unitary"), ("mixed-unitary", "mixed-unitary"), ("pauli", "pauli"), ("cptp", "cptp"), ("cptp", "unitary"), ("cptp", "replacer"), ("amplitude-damping", "identity"), ("cptp-rank2", "mixed-unitary")]
    seeds = [seed + i for i in range(3 if thorough else 1)]
    # ---------------- diamond distance on pairs of channels
    for d in (2, 3):
        for kinds in pairs:
            cls = "dd/%s-vs-%s/d=%d" % (kinds[0], kinds[1], d)
            for s in seeds:
                prm = dict(d=d, kinds=list(kinds), seed=s)
                if d == 2 or thorough or kinds in (("unitary", "mixed-unitary"), ("cptp", "cptp"), ("pauli", "pauli"), ("cptp", "replacer")):
                    add("dd.symmetric", prm, cls)
                    add("dd.ge_choi_normalised", prm, cls)
                    add("dd.le_choi_unnormalised", prm, cls)
                    add("dd.le_2", prm, cls)
                    add("dd.ge_concrete_inputs", prm, cls)
                if d == 2 or thorough or kinds in (("cptp", "cptp"), ("unitary", "mixed-unitary")):
                    for pre, post in ((True, True), (True, False), (False, True)):
                        add("dd.unitary_invariant", dict(prm, pre=pre, post=post), cls)
        # the same multiple of two channels: linear maps that are no longer channels (the bound 2 does not apply, the Choi bounds do)
        for kinds in (("unitary", "unitary"), ("cptp", "replacer")):
            for sc in (3.0, -1.5):
                prm = dict(d=d, kinds=list(kinds), seed=seed, scale=sc)
                cls = "dd/scaled-maps/%s-vs-%s/d=%d" % (kinds[0], kinds[1], d)
                add("dd.symmetric", prm, cls)
                add("dd.ge_choi_normalised", prm, cls)
                add("dd.le_choi_unnormalised", prm, cls)
                add("dd.ge_concrete_inputs", prm, cls)
        for kind in ("unitary", "mixed-unitary", "pauli", "cptp", "replacer", "amplitude-damping", "identity"):
            add("dd.equal_zero", dict(d=d, kinds=[kind, kind], seed=seed), "dd/equal-%s/d=%d" % (kind, d), True)
        for z in (0, 1):
            for s in seeds:
                add("dd.pauli_closed_form", dict(d=d, seed=s, zeros=z), "dd/pauli-pair/d=%d" % d)
    # ---------------- unitary pairs: closed form for the diamond distance and for the channel fidelity
    ugrid = {
        2: [[0.0, 0.3], [0.0, 1.0], [0.0, 2.0], [0.0, 3.0], [0.0, np.pi], [0.4, -1.1], [0.0, 1e-3]],
        3: [[0.0, 0.5, 1.0], [0.0, 1.0, 2.5], [0.0, 2.0, 4.0], [0.0, 2.2, 4.3], [0.0, 0.1, 3.0], [0.0, 0.0, 2.0], [0.3, 0.3, 0.3]],
    }
    for d in (2, 3):
        for ph in ugrid[d]:
            for diag in (False, True):
                prm = dict(d=d, phases=ph, diagonal=diag, u_identity=diag, seed=seed)
                spread = max(ph) - min(ph)
                kind = "equal-up-to-phase" if spread == 0 else ("origin-in-hull" if hull_distance(np.exp(1j * np.array(ph))) == 0 else "origin-outside-hull")
                cls = "unitary-pair/%s/%s/d=%d" % ("diagonal" if diag else "rotated", kind, d)
                add("dd.unitary_pair_ge", prm, "dd/" + cls)
                add("dd.unitary_pair_le", prm, "dd/" + cls)
                if d == 2 or (thorough or ph in ([0.0, 1.0, 2.5], [0.0, 0.5, 1.0]) and not diag) or (diag and ph == [0.0, 0.5, 1.0]):
                    add("cf.unitary_pair_ge", prm, "cf/" + cls)
                    add("cf.unitary_pair_le", prm, "cf/" + cls)
        # a real first Choi matrix (the identity channel, real dtype) against a complex one
        for ph in ugrid[d][:3]:
            prm = dict(d=d, phases=ph, diagonal=True, u_identity=True, seed=seed, real_first=True)
            add("cf.unitary_pair_ge", prm, "cf/unitary-pair/real-dtype-first/d=%d" % d)
            add("cf.unitary_pair_le", prm, "cf/unitary-pair/real-dtype-first/d=%d" % d)
        for s in range(6 if thorough else 2):
            prm = dict(d=d, seed=seed + 1000 + s)
            add("dd.unitary_pair_ge", prm, "dd/unitary-pair/haar/d=%d" % d)
            add("dd.unitary_pair_le", prm, "dd/unitary-pair/haar/d=%d" % d)
            if d == 2 or thorough:
                add("cf.unitary_pair_ge", prm, "cf/unitary-pair/haar/d=%d" % d)
                add("cf.unitary_pair_le", prm, "cf/unitary-pair/haar/d=%d" % d)
    # ---------------- cb trace norm
    for d_ in (2, 3):
        for field in ("complex", "real"):
            add("cbtn.rank_one_map", dict(d=d_, field=field, seed=seed), "cbtn/non-hermiticity-preserving/AXB/%s" % field)
            add("cbsn.rank_one_map", dict(d=d_, field=field, seed=seed), "cbsn-AXB/non-hermiticity-preserving/%s" % field)
    for d in (2, 3):
        for kind in ("unitary", "mixed-unitary", "pauli", "cptp", "replacer", "amplitude-damping", "identity"):
            for s in seeds:
                add("cbtn.channel_is_1", dict(d=d, kind=kind, seed=s), "cbtn/channel-%s/d=%d" % (kind, d))
        for kind in ("cp", "cp-real", "cp-scaled-channel", "cp-trace-map"):
            for s in seeds + [seed + 50]:
                prm = dict(d=d, kind=kind, seed=s)
                add("cbtn.cp_ge_opnorm", prm, "cbtn/%s/d=%d" % (kind, d))
                add("cbtn.cp_le_opnorm", prm, "cbtn/%s/d=%d" % (kind, d))
                add("cbsn.cp_ge_opnorm", prm, "cbsn/%s/d=%d" % (kind, d))
                add("cbsn.cp_le_opnorm", prm, "cbsn/%s/d=%d" % (kind, d))
        for kind in ("cp", "channel-difference", "hermitian-preserving", "hermitian-preserving-real", "cptp", "unitary", "tp-transpose", "tp-not-cp"):
            for c in ([2.0, 0.0], [0.5, 0.0], [-1.0, 0.0], [-2.5, 0.0], [0.0, 1.0], [0.6, -0.8], [1.5, 2.0]):
                sign = "positive" if (c[1] == 0 and c[0] > 0) else ("negative" if c[1] == 0 else "complex")
                if d == 3 and not thorough and sign == "complex" and c != [0.6, -0.8]:
                    continue
                add("cbtn.homogeneous", dict(d=d, kind=kind, c=c, seed=seed), "cbtn/homogeneity/%s/%s-scalar/d=%d" % (kind, sign, d))
        for kind in ("channel-difference", "hermitian-preserving", "hermitian-preserving-real", "tp-transpose", "tp-not-cp"):
            for s in (seeds + [seed + 50]) if kind != "tp-transpose" else [seed]:
                prm = dict(d=d, kind=kind, seed=s)
                add("cbtn.ge_choi_normalised", prm, "cbtn/%s/d=%d" % (kind, d))
                add("cbtn.ge_concrete_inputs", prm, "cbtn/%s/d=%d" % (kind, d))
                add("cbtn.le_choi_unnormalised", prm, "cbtn/%s/d=%d" % (kind, d))
        for kind in ("channel-difference", "hermitian-preserving", "cptp", "cp"):
            add("cbtn.solver", dict(d=d, kind=kind, seed=seed, solver="cvxopt"), "cbtn/solver-cvxopt/%s/d=%d" % (kind, d))
        # ---------------- cb spectral norm
        for kind in ("unitary", "mixed-unitary", "pauli", "identity"):  # unital channels: the dual is a channel again
            add("cbsn.eq_cbtn_of_dual", dict(d=d, kind=kind, seed=seed), "cbsn/unital-channel-%s/d=%d" % (kind, d))
            add("cbsn.cp_ge_opnorm", dict(d=d, kind=kind, seed=seed), "cbsn/unital-channel-%s/d=%d" % (kind, d))
            add("cbsn.cp_le_opnorm", dict(d=d, kind=kind, seed=seed), "cbsn/unital-channel-%s/d=%d" % (kind, d))
        for kind in ("cptp", "replacer", "amplitude-damping"):  # non-unital channels: the dual is CP and unital, not trace preserving
            add("cbsn.eq_cbtn_of_dual", dict(d=d, kind=kind, seed=seed), "cbsn/nonunital-channel-%s/d=%d" % (kind, d))
            add("cbsn.cp_ge_opnorm", dict(d=d, kind=kind, seed=seed), "cbsn/nonunital-channel-%s/d=%d" % (kind, d))
            add("cbsn.cp_le_opnorm", dict(d=d, kind=kind, seed=seed), "cbsn/nonunital-channel-%s/d=%d" % (kind, d))
        for kind in ("cp", "channel-difference", "hermitian-preserving", "hermitian-preserving-real"):
            for s in seeds:
                add("cbsn.eq_cbtn_of_dual", dict(d=d, kind=kind, seed=s), "cbsn/%s/d=%d" % (kind, d))
    # ---------------- channel fidelity (SCS; qubit ~3 s, qutrit ~20 s per solve)
    cf_pairs2 = [("cptp", "cptp"), ("unitary", "mixed-unitary"), ("pauli", "pauli"), ("cptp", "replacer"), ("amplitude-damping", "identity"), ("mixed-unitary", "mixed-unitary")]
    for kinds in cf_pairs2:
        cls = "cf/%s-vs-%s/d=2" % kinds
        for s in seeds:
            prm = dict(d=2, kinds=list(kinds), seed=s)
            add("cf.le_choi_fidelity", prm, cls)
            add("cf.le_concrete_inputs", prm, cls)
            if thorough or kinds in (("cptp", "cptp"), ("unitary", "mixed-unitary"), ("cptp", "replacer")):
                add("cf.symmetric", prm, cls)
    cf_pairs3 = [("cptp", "cptp"), ("pauli", "pauli")] + ([("unitary", "mixed-unitary"), ("cptp", "replacer")] if thorough else [])
    for kinds in cf_pairs3:
        cls = "cf/%s-vs-%s/d=3" % kinds
        prm = dict(d=3, kinds=list(kinds), seed=seed)
        add("cf.le_choi_fidelity", prm, cls)
        if thorough or kinds == ("cptp", "cptp"):
            add("cf.le_concrete_inputs", prm, cls)
        if thorough:
            add("cf.symmetric", prm, cls)
    for d in (2, 3):
        for kind in ("unitary", "mixed-unitary", "pauli", "cptp", "replacer", "amplitude-damping", "identity"):
            add("cf.equal_one", dict(d=d, kinds=[kind, kind], seed=seed), "cf/equal-%s/d=%d" % (kind, d))
        for z in (0, 1):
            if d == 2 or z == 0 or thorough:
                add("cf.pauli_ge", dict(d=d, seed=seed, zeros=z), "cf/pauli-pair/d=%d" % d)
    for d in (2, 3, 4, 5) + ((6, 8) if thorough else ()):
        add("cf.defined", dict(d=d, pair="equal-identity"), "cf/defined/equal-identity/d=%d" % d)
        add("cf.defined", dict(d=d, pair="identity-vs-phase", theta=1.0), "cf/defined/identity-vs-phase/d=%d" % d)
        add("cf.defined", dict(d=d, pair="dephasing-vs-depolarizing"), "cf/defined/dephasing-vs-depolarizing/d=%d" % d)
    for d in (4, 5):
        add("cf.equal_one", dict(d=d, kinds=["cptp-rank2", "cptp-rank2"], seed=seed), "cf/equal-cptp/d=%d" % d)
    # ---------------- channel fidelity of separability: pure product states psi_{BAR}, dims [dB, dA, dR]
    grid = [([2, 2, 2], 1), ([2, 2, 2], 2), ([2, 3, 2], 1), ([3, 2, 2], 1), ([2, 2, 3], 1), ([2, 2, 3], 2), ([3, 3, 2], 1), ([2, 3, 3], 1), ([3, 2, 3], 1), ([2, 3, 2], 2)]
    if thorough:
        grid += [([3, 2, 2], 2), ([3, 3, 2], 2), ([3, 3, 3], 1), ([2, 2, 2], 3), ([4, 2, 2], 1), ([2, 4, 2], 1), ([2, 2, 4], 1)]
    for dims, k in grid:
        cls = "cfos/pure-product/%s/k=%d" % ("x".join(map(str, dims)), k)
        for fld in ("complex", "real") if (k == 1 or thorough) else ("complex",):
            for s in seeds:
                add("cfos.product_is_1", dict(dims=dims, k=k, field=fld, seed=s), cls, **({"limit": 110} if thorough else {}))
        if k == 1:
            add("cfos.product_is_1", dict(dims=dims, k=k, basis=True, index=1, seed=seed), "cfos/pure-product-basis/%s/k=%d" % ("x".join(map(str, dims)), k))

    # the pool hands cases out in list order: put the expensive SDPs first so that they do not form the tail of the run
    def cost(c):
        cl, prm = c["clause"], c["params"]
        if cl.startswith("cf.") and prm.get("d", 2) >= 3 and cl not in ("cf.equal_one",):
            return 30 if prm.get("d") == 3 else 60
        if cl.startswith("cfos") and prm.get("k", 1) >= 2:
            return 8
        if cl.startswith("cf."):
            return 3
        if prm.get("d", 2) >= 3:
            return 1
        return 0

    out.sort(key=cost, reverse=True)
    return out


# =============================================================================================
# deductive part (E1-term) and its replay clause (main agent)
# =============================================================================================
from props.C20_prove import EXTRA_CLAUSES as _EXTRA20  # noqa: E402
from props.C20_prove import prove  # noqa: E402,F401

CLAUSES.update(_EXTRA20)
LEVEL_TEXT = LEVEL_TEXT + (" Proved (E1-prog, all dimensions): outside its channel / completely-positive shortcuts completely_bounded_trace_norm builds Watrous' program "
                           "min ||Tr_2 Y0|| + ||Tr_2 Y1|| s.t. Y0, Y1 >= 0, [[Y0, -J], [-J^*, Y1]] >= 0, solves it once with the caller's solver and returns half its optimum; "
                           "channel_fidelity builds max lambda s.t. [[J1, Q^*], [Q, J2]] >= 0, (Tr_2 Q + (Tr_2 Q)^*) / 2 >= lambda I and returns its optimum (SCS at the caller's eps).")
TRUSTED.append("E1-prog (program contracts): matrices and solver variables are uninterpreted terms; picos / cvxpy semantics assumed by name (>> Loewner order, block / bmat, diag, sum, trace, SpectralNorm, partial_trace of a variable with its index and dimensions argument); the solver returns the optimum of the program it is handed (certified only on the bounded tier); objectives compared modulo real linear arithmetic")
TECHNIQUE = "program contracts of the SDP builders and term contracts of the derived norms (VCs from the real AST, z3); frame clauses by taint analysis; run-time-checked contracts over a bounded domain (bounded stand-in) for every value"

# =============================================================================================
# frame coverage shared by all properties (E2 obligations for every public function of the anchor files + run-time frame cases)
# =============================================================================================
from props import frame_all as _fa  # noqa: E402
from props.frame_common import frame_generic as _fg, frame_object as _fo  # noqa: E402

CLAUSES.setdefault("frame.generic", _fg)
CLAUSES.setdefault("frame.object", _fo)
_cases_before_frames = cases
_prove_before_frames = globals().get("prove")


def cases(tier, seed):  # noqa: F811
    return _cases_before_frames(tier, seed) + _fa.frame_cases(ID, seed)


def prove(tier, seed):  # noqa: F811
    from vt.pyvc.termproofs import merge

    b = _fa.prove_frames(ID, lambda s: _fa.frame_cases(ID, s))(tier, seed)
    if _prove_before_frames is None:
        return b
    return merge(_prove_before_frames(tier, seed), b)

if LEVEL == "exploration":
    LEVEL = "other"
LEVEL_TEXT = LEVEL_TEXT + (" Additionally proved (E2, taint analysis of the real AST): every public function and method in this property's anchor files writes through "
                           "no reference reachable from its arguments (or from self), so results do not depend on call order and callers' arrays / lists are not modified; "
                           "a run-time frame clause replays the same claim on concrete arguments.")
EXPLANATION = LEVEL_TEXT
if "E2-frame" not in globals().get("ENGINES", []):
    ENGINES = list(globals().get("ENGINES", ["E3-E4-rtc"])) + ["E2-frame"]
