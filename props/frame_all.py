"""Frame coverage shared by all properties: (a) E2 obligations `modifies nothing` for every public function / method in a property's
anchor files, generated mechanically from properties.jsonl; (b) run-time frame cases (frame.generic / frame.object) for the functions
that take arrays or lists.  A missing copy shows on the *second* use of an argument or object, which value clauses never exercise."""
from __future__ import annotations

import ast
import json
import os

from vt.common import REPO, VERIF

SKIP_FUNCS = {"perm_unique_helper"}  # documented scratch-argument helper (modifies result_list, list_unique by design)


def anchor_functions(prop):
    props = [json.loads(l) for l in open(os.path.join(VERIF, "properties.jsonl"))]
    p = [x for x in props if x["id"] == prop][0]
    files = []
    for f in p["anchors"]["files"]:
        full = os.path.join(REPO, f)
        if os.path.isdir(full):
            for g in sorted(os.listdir(full)):
                if g.endswith(".py") and g != "__init__.py":
                    files.append(os.path.join(f, g))
        elif os.path.exists(full):
            files.append(f)
    out = []
    for rel in files:
        try:
            tree = ast.parse(open(os.path.join(REPO, rel)).read())
        except (SyntaxError, OSError):
            continue
        for n in tree.body:
            if isinstance(n, ast.FunctionDef) and not n.name.startswith("_") and n.name not in SKIP_FUNCS:
                out.append((rel, n.name, None))
            if isinstance(n, ast.ClassDef):
                for m in n.body:
                    if isinstance(m, ast.FunctionDef) and not m.name.startswith("_") and any(a.arg == "self" for a in m.args.args[:1]):
                        out.append((rel, "%s.%s" % (n.name, m.name), ["self"]))
    return out


def e2_all(prop, replay_index=None):
    from vt.frame import Index, frame_obligations

    ix = Index()
    recs = []
    funcs = []
    for rel, qual, roots in anchor_functions(prop):
        try:
            r, S = frame_obligations(ix, rel, qual, modifies=(), roots=roots, label="%s modifies none of its arguments%s" % (qual, " / nothing reachable from self" if roots else ""))
        except KeyError:
            continue
        fn = qual.split(".")[-1]
        for x in r:
            x["clean"] = False
            if x["status"] != "discharged" and replay_index:
                x["replay"] = [c for c in replay_index if c.get("function") == fn or c["params"].get("fn") == fn or fn in [m for m, _ in c["params"].get("methods", [])]]
        recs += r
        funcs.append(qual)
    for i, x in enumerate(recs):
        x["_id"] = "e2all.%d" % i
    return recs, funcs


def prove_frames(prop, cases_fn=None):
    def prove(tier, seed):
        replay = cases_fn(seed) if cases_fn else []
        recs, funcs = e2_all(prop, replay)
        per = {}
        for x in recs:
            if x.get("claim"):
                per[x["function"]] = per.get(x["function"], 0) + 1
        sc = {"nonzero_claim_obligations": {"ok": bool(per) and all(v > 0 for v in per.values()), "detail": {"functions": len(per)}}}
        return dict(records=recs, functions=[{"function": f} for f in funcs], instances=len(funcs), planted={"tried": 0, "refuted": 0, "survivors": [], "anchors_missing": [], "detail": []}, selfchecks=sc)

    return prove


# ---------------------------------------------------------------------------------------------
# run-time frame cases per property
# ---------------------------------------------------------------------------------------------
def _g(module, fn, args, ic, **kw):
    return dict(clause="frame.generic", params=dict(module=module, fn=fn, args=args, **kw), input_class="frame/%s/%s" % (fn, ic), nontrivial=True, function=fn)


def _o(module, cls, args, methods, ic, **kw):
    return dict(clause="frame.object", params=dict(module=module, cls=cls, args=args, methods=methods, **kw), input_class="frame/%s/%s" % (cls, ic), nontrivial=True, function=cls)


def M(shape, seed=0, cplx=True):
    return dict(kind="matrix", shape=list(shape), seed=seed, complex=cplx)


def frame_cases(prop, seed=0):
    out = []
    s = seed
    if prop == "C06":
        for form in ("kraus_flat", "kraus_nested", "kraus_pairs", "choi"):
            phi = dict(kind=form, d_in=2, d_out=2, r=3 if form == "kraus_nested" else 2, seed=s)
            for fn in ("is_completely_positive", "is_herm_preserving", "is_trace_preserving", "is_unital", "is_quantum_channel", "is_positive", "choi_rank", "is_unitary", "is_extremal"):
                out.append(_g("toqito.channel_props", fn, [phi], form))
        # the built-in channels return a fresh Choi matrix / Kraus list on every call (a cached array handed out twice is not)
        c = lambda v: dict(kind="const", v=v)  # noqa: E731
        for fn, a, kw in (("depolarizing", [c(3), c(0.3)], {}), ("depolarizing", [c(2)], {}), ("dephasing", [c(3), c(0.25)], {}), ("reduction", [c(3)], {}), ("reduction", [c(3), c(2)], {}), ("choi", [], {}),
                          ("choi", [c(2), c(1), c(1)], {}), ("amplitude_damping", [], dict(gamma=c(0.3))), ("amplitude_damping", [], dict(gamma=c(0.3), prob=c(0.6))), ("phase_damping", [], dict(gamma=c(0.4))),
                          ("bitflip", [], dict(prob=c(0.2))), ("pauli_channel", [dict(kind="array", v=[0.1, 0.2, 0.3, 0.4])], {}), ("pauli_channel", [dict(kind="array", v=[0.1, 0.2, 0.3, 0.4])], dict(return_kraus_ops=c(True)))):
            out.append(_g("toqito.channels", fn, a, "constructor/%d-args%s" % (len(a), "".join("/" + k for k in sorted(kw))), kwargs=kw))
    if prop == "C08":
        prob = dict(kind="array", v=[[0.25, 0.25], [0.125, 0.375]])
        pred = dict(kind="array", v=[[0, 0], [0, 1]])
        import itertools

        ms = ["quantum_value", "classical_value", "nonsignaling_value"]
        for order in list(itertools.permutations(ms))[:4] + [("quantum_value", "quantum_value", "classical_value")]:
            out.append(_o("toqito.nonlocal_games.xor_game", "XORGame", [prob, pred], [[m, {}] for m in order], "order-" + "-".join(x[0] for x in order)))
        prob3 = dict(kind="array", v=[[0.2, 0.1, 0.1], [0.1, 0.2, 0.3]])
        pred3 = dict(kind="array", v=[[0, 1, 0], [1, 1, 0]])
        out.append(_o("toqito.nonlocal_games.xor_game", "XORGame", [prob3, pred3], [["quantum_value", {}], ["classical_value", {}], ["quantum_value", {}]], "rect"))
    if prop == "C09":
        out.append(_g("toqito.state_opt", "optimal_clone", [dict(kind="kets", d=2, n=3, seed=s), dict(kind="probs", n=3, seed=s)], "kets", tol=5e-4))
        out.append(_g("toqito.state_opt", "optimal_clone", [dict(kind="kets", d=2, n=2, seed=s + 1), dict(kind="probs", n=2, seed=s)], "kets-primal", tol=5e-4, kwargs=dict(strategy=dict(kind="const", v=True))))
        # an extended nonlocal game whose referee operators are already complex128 (no dtype conversion can hide a missing copy)
        enlg = [dict(kind="array", v=[[0.5, 0.0], [0.0, 0.5]]), dict(kind="enlg_pred", complex=True)]
        out.append(_o("toqito.nonlocal_games.extended_nonlocal_game", "ExtendedNonlocalGame", enlg, [["unentangled_value", {}], ["unentangled_value", {}], ["nonsignaling_value", {}], ["unentangled_value", {}]], "complex-pred", tol=1e-4))
        q = dict(kind="density", d=4, seed=s, rank=2)
        out.append(_o("toqito.nonlocal_games.quantum_hedging", "QuantumHedging", [q, dict(kind="const", v=1)], [["max_prob_outcome_a_primal", {}], ["min_prob_outcome_a_dual", {}], ["max_prob_outcome_a_dual", {}], ["min_prob_outcome_a_primal", {}], ["max_prob_outcome_a_primal", {}]], "n=1"))
    if prop in ("C10", "C11"):
        fn = "state_distinguishability" if prop == "C10" else "state_exclusion"
        for rep, kind in (("column", "kets"), ("1d", "kets"), ("dm", "densities")):
            st = dict(kind=kind, d=2, n=3, seed=s, column=(rep == "column")) if kind == "kets" else dict(kind="densities", d=2, n=3, seed=s)
            for pd in ("primal", "dual"):
                out.append(_g("toqito.state_opt", fn, [st, dict(kind="probs", n=3, seed=s)], "%s/%s" % (rep, pd), tol=1e-5, kwargs=dict(primal_dual=dict(kind="const", v=pd))))
    if prop == "C13":
        for fn in ("fidelity", "trace_distance", "hilbert_schmidt", "helstrom_holevo", "bures_distance", "bures_angle", "sub_fidelity", "matsumoto_fidelity", "hilbert_schmidt_inner_product"):
            out.append(_g("toqito.state_metrics", fn, [dict(kind="density", d=3, seed=s), dict(kind="density", d=3, seed=s + 1)], "density-pair", tol=1e-8))
    if prop == "C14":
        for fn in ("negativity", "log_negativity", "schmidt_rank", "is_product"):
            out.append(_g("toqito.state_props", fn, [dict(kind="density", d=6, seed=s, rank=1), dict(kind="const", v=[2, 3])], "dm/list-dim", tol=1e-8))
            out.append(_g("toqito.state_props", fn, [dict(kind="ket", d=6, seed=s), dict(kind="array", v=[2, 3])], "ket/array-dim", tol=1e-8))
        out.append(_g("toqito.state_ops", "schmidt_decomposition", [dict(kind="ket", d=6, seed=s), dict(kind="array", v=[2, 3])], "ket/array-dim", tol=1e-8))
        for fn in ("purity", "von_neumann_entropy", "l1_norm_coherence", "concurrence", "entanglement_of_formation"):
            d = 4
            out.append(_g("toqito.state_props", fn, [dict(kind="density", d=d, seed=s, rank=1 if fn == "entanglement_of_formation" else d)], "dm", tol=1e-7))
    if prop == "C15":
        out.append(_g("toqito.state_props", "is_ppt", [dict(kind="density", d=6, seed=s), dict(kind="const", v=2), dict(kind="array", v=[2, 3])], "array-dim"))
        out.append(_g("toqito.state_props", "is_ppt", [dict(kind="density", d=6, seed=s), dict(kind="const", v=1), dict(kind="const", v=[2, 3])], "list-dim"))
        out.append(_g("toqito.state_props", "is_npt", [dict(kind="density", d=6, seed=s), dict(kind="const", v=2), dict(kind="array", v=[[2, 3], [2, 3]])], "2row-dim"))
        out.append(_g("toqito.state_props", "is_separable", [dict(kind="density", d=6, seed=s), dict(kind="const", v=[2, 3])], "2x3"))
        out.append(_g("toqito.state_props", "is_separable", [dict(kind="density", d=4, seed=s), dict(kind="array", v=[2, 2])], "2x2/array-dim"))
        out.append(_g("toqito.state_props", "in_separable_ball", [dict(kind="density", d=4, seed=s)], "dm"))
        out.append(_g("toqito.state_props", "has_symmetric_extension", [dict(kind="density", d=4, seed=s), dict(kind="const", v=1), dict(kind="const", v=[2, 2])], "level1"))
    if prop == "C16":
        for fn in ("is_hermitian", "is_unitary", "is_normal", "is_positive_semidefinite", "is_density", "is_projection", "is_square", "is_diagonal", "is_symmetric", "is_circulant", "is_stochastic", "is_permutation", "trace_norm"):
            kw = {"kwargs": {"mat_type": dict(kind="const", v="right")}} if fn == "is_stochastic" else {}
            out.append(_g("toqito.matrix_props", fn, [M((3, 3), s, cplx=fn not in ("is_stochastic", "is_permutation"))], "matrix", **kw))
        out.append(_g("toqito.matrix_ops", "vectors_to_gram_matrix", [dict(kind="kets", d=3, n=3, seed=s, column=False)], "kets"))
        out.append(_g("toqito.matrix_ops", "vectors_from_gram_matrix", [dict(kind="array", v=[[2.0, 0.5], [0.5, 1.0]])], "gram"))
        out.append(_g("toqito.matrix_ops", "tensor", [[M((2, 2), s), M((2, 2), s + 1), M((2, 2), s + 2)]], "list-of-3") | {"params": dict(module="toqito.matrix_ops", fn="tensor", args=[dict(kind="const", v=None)])})
        out.pop()
        out.append(_g("toqito.matrix_props", "is_commuting", [M((3, 3), s), M((3, 3), s + 1)], "pair"))
        out.append(_g("toqito.matrix_props", "majorizes", [dict(kind="array", v=[3.0, 1.0, 0.0]), dict(kind="array", v=[2.0, 1.0, 1.0])], "vectors"))
        out.append(_g("toqito.state_props", "is_mutually_orthogonal", [dict(kind="kets", d=3, n=2, seed=s, column=False)], "kets"))
        out.append(_g("toqito.matrix_props", "is_orthonormal", [dict(kind="kets", d=3, n=2, seed=s, column=False)], "kets"))
    if prop == "C17":
        K = lambda v: dict(kind="const", v=v)  # noqa: E731
        for mod, fn, argsets in (
            ("toqito.states", "basis", [[3, 1]]), ("toqito.states", "bb84", [[]]), ("toqito.states", "bell", [[0], [3]]), ("toqito.states", "brauer", [[2, 2]]),
            ("toqito.states", "breuer", [[2, 0.3]]), ("toqito.states", "chessboard", [[[1, 2, 3, 4, 5, 6], 7, 8]]), ("toqito.states", "dicke", [[3, 1], [3, 2, True]]),
            ("toqito.states", "domino", [[0], [4]]), ("toqito.states", "gen_bell", [[1, 1, 3]]), ("toqito.states", "ghz", [[2, 3], [3, 2]]), ("toqito.states", "gisin", [[0.5, 1.0]]),
            ("toqito.states", "horodecki", [[0.5, [3, 3]], [0.5, [2, 4]]]), ("toqito.states", "isotropic", [[3, 0.3]]), ("toqito.states", "max_entangled", [[3], [2, False, False]]),
            ("toqito.states", "max_mixed", [[3]]), ("toqito.states", "mutually_unbiased_basis", [[3], [5]]), ("toqito.states", "pusey_barrett_rudolph", [[2, 0.5]]),
            ("toqito.states", "singlet", [[2]]), ("toqito.states", "tile", [[0], [3]]), ("toqito.states", "trine", [[]]), ("toqito.states", "w_state", [[3]]),
            ("toqito.states", "werner", [[2, 0.3], [2, [0.3]], [2, [0.1, 0.2, 0.1, 0.0, 0.1]]]),
            ("toqito.matrices", "cnot", [[]]), ("toqito.matrices", "cyclic_permutation_matrix", [[4], [4, 2]]), ("toqito.matrices", "fourier", [[3]]), ("toqito.matrices", "gell_mann", [[3]]),
            ("toqito.matrices", "gen_gell_mann", [[0, 1, 3], [1, 1, 3]]), ("toqito.matrices", "gen_pauli", [[1, 1, 3]]), ("toqito.matrices", "gen_pauli_x", [[3]]), ("toqito.matrices", "gen_pauli_z", [[3]]),
            ("toqito.matrices", "hadamard", [[1], [2], [3]]), ("toqito.matrices", "pauli", [["X"], [2], [["X", "Z"]]]), ("toqito.matrices", "standard_basis", [[3], [2, True]]),
        ):
            for k, a in enumerate(argsets):
                out.append(_g(mod, fn, [K(x) for x in a], "args%d" % k))
        # higher orders after lower ones (a constructor that builds on memoised smaller instances)
        out.append(_g("toqito.matrices", "hadamard", [K(3)], "after-lower-orders") | {})
    if prop == "C18":
        for fn, a in (("symmetric_projection", [2, 2]), ("symmetric_projection", [2, 3]), ("antisymmetric_projection", [2, 2]), ("antisymmetric_projection", [3, 3]), ("symmetric_projection", [2, 2, True]), ("antisymmetric_projection", [3, 2, True])):
            out.append(_g("toqito.perms", fn, [dict(kind="const", v=x) for x in a], "d=%d,p=%d%s" % (a[0], a[1], ",partial" if len(a) > 2 else ""), tol=1e-7))
        out.append(_g("toqito.perms", "perm_sign", [dict(kind="const", v=[3, 1, 2, 4])], "list"))
        out.append(_g("toqito.perms", "perm_sign", [dict(kind="array", v=[2, 1, 3])], "array"))
        out.append(_g("toqito.perms", "perfect_matchings", [dict(kind="array", v=[0, 1, 2, 3, 4, 5])], "array"))
        out.append(_g("toqito.perms", "perfect_matchings", [dict(kind="const", v=[3, 4, 5, 6])], "list"))
    if prop == "C19":
        K = lambda v: dict(kind="const", v=v)  # noqa: E731
        # seeded generators: same seed -> same object, also after the caller has edited an earlier result in place (no result may be shared)
        for fn, a, kw in (("random_unitary", [3], {}), ("random_unitary", [3, True], {}), ("random_density_matrix", [3], {}), ("random_density_matrix", [3, False, None, "bures"], {}),
                          ("random_state_vector", [3], {}), ("random_state_vector", [[2, 2], False, 1], {}), ("random_povm", [2, 2, 2], {}), ("random_orthonormal_basis", [3], {}),
                          ("random_ginibre", [2, 3], {}), ("random_psd_operator", [3], {}), ("random_circulant_gram_matrix", [3], {}), ("random_states", [3, 2], {})):
            out.append(_g("toqito.rand", fn, [K(x) for x in a], "seeded-%d" % len(a), kwargs=dict(seed=K(7)), tol=0.0))
        st = dict(kind="kets", d=3, n=3, seed=s)
        pr = dict(kind="probs", n=3, seed=s)
        out.append(_g("toqito.measurements", "pretty_good_measurement", [st, pr], "kets", tol=1e-8))
        out.append(_g("toqito.measurements", "pretty_bad_measurement", [st, pr], "kets", tol=1e-8))
        out.append(_g("toqito.measurement_props", "is_povm", [[dict(kind="array", v=[[1, 0], [0, 0]]), dict(kind="array", v=[[0, 0], [0, 1]])]], "list") | {})
        out.pop()
    if prop == "C20":
        J = dict(kind="choi", d_in=2, d_out=2, r=2, seed=s)
        J2 = dict(kind="choi", d_in=2, d_out=2, r=2, seed=s + 1)
        out.append(_g("toqito.channel_metrics", "diamond_distance", [J, J2], "qubit", tol=1e-5))
        out.append(_g("toqito.channel_metrics", "completely_bounded_trace_norm", [J], "qubit", tol=1e-5))
        out.append(_g("toqito.channel_metrics", "completely_bounded_spectral_norm", [J], "qubit", tol=1e-5))
        out.append(_g("toqito.channel_metrics", "channel_fidelity", [J, J2], "qubit", tol=5e-3))
    return out
